package main

// TCP-level runs against the real server (server.Start from the working tree of the repo).
//
//   serve <port> <logdir> [databases]   start the server exactly as main.go does (all command
//                                        families registered, standalone mode) on 127.0.0.1:<port>;
//                                        exits when its stdin is closed (the parent went away)
//   cmdtable                             print the registered command names, one per line
//   tcp <addr> <cases> <out> [workers] [selfclose_ms]   one fresh connection per case:
//        case line  <id> TAB <hex stream> TAB <sizes csv | one | bytes> TAB <mode> TAB <pause_every> TAB <probe hex | ->
//        mode F: write the chunks (TCP_NODELAY, one write per chunk), half-close, read to EOF
//        mode E: write the chunks and keep the sending side open; the server is expected to
//                close the connection by itself; after selfCloseWait the client half-closes anyway
//        out line   <id> TAB <status> TAB <hex of every byte received> TAB <witness> TAB <hex probe reply | ->
//        status     EOF | RESET | EOF-AFTER-SHUTDOWN | RESET-AFTER-SHUTDOWN | TIMEOUT | CONNFAIL | ERR:<text>
//        witness    every worker keeps one long-lived connection; after each case it sends the probe
//                   (if any) followed by PING on it and must read ...+PONG: WOK | WFAIL:<why>

import (
	"bufio"
	"bytes"
	"errors"
	"fmt"
	"io"
	"log"
	"net"
	"os"
	"sort"
	"strconv"
	"strings"
	"sync"
	"syscall"
	"time"

	"github.com/innovationb1ue/RedisGO/config"
	"github.com/innovationb1ue/RedisGO/logger"
	"github.com/innovationb1ue/RedisGO/memdb"
	"github.com/innovationb1ue/RedisGO/server"
)

func init() {
	subcmds["serve"] = cmdServe
	subcmds["cmdtable"] = cmdCmdTable
	subcmds["tcp"] = cmdTCP
}

func registerAll() {
	memdb.RegisterKeyCommands()
	memdb.RegisterStringCommands()
	memdb.RegisterListCommands()
	memdb.RegisterSetCommands()
	memdb.RegisterHashCommands()
	memdb.RegisterPubSubCommands()
	memdb.RegisterSortedSetCommands()
	memdb.RegisterStreamCommands()
	memdb.RegisterRaftCommand()
}

func cmdCmdTable(args []string) error {
	registerAll()
	names := make([]string, 0, len(memdb.CmdTable))
	for k := range memdb.CmdTable {
		names = append(names, k)
	}
	sort.Strings(names)
	for _, n := range names {
		fmt.Println(n)
	}
	fmt.Println("select")
	return nil
}

func cmdServe(args []string) error {
	if len(args) < 2 {
		return fmt.Errorf("usage: serve <port> <logdir> [databases]")
	}
	port, err := strconv.Atoi(args[0])
	if err != nil {
		return err
	}
	dbs := 16
	if len(args) > 2 {
		dbs, _ = strconv.Atoi(args[2])
	}
	cfg := &config.Config{
		Host: "127.0.0.1", Port: port, LogDir: args[1], LogLevel: "panic",
		ShardNum: 1024, ChanBufferSize: 10, Databases: dbs, Others: map[string]any{},
	}
	config.Configures = cfg
	if err := logger.SetUp(cfg); err != nil {
		return err
	}
	logger.Disable()
	log.SetOutput(io.Discard)
	registerAll()
	// die with the parent: the check keeps our stdin open for as long as it lives
	go func() {
		io.Copy(io.Discard, os.Stdin)
		os.Exit(0)
	}()
	return server.Start(cfg)
}

// ---------------------------------------------------------------- client

var (
	connectTries  = 20
	connectPause  = 50 * time.Millisecond
	readDeadline  = 60 * time.Second
	selfCloseWait = 20 * time.Second
	witnessWait   = 20 * time.Second
)

func dial(addr string) (*net.TCPConn, error) {
	var last error
	for i := 0; i < connectTries; i++ {
		c, err := net.DialTimeout("tcp", addr, 5*time.Second)
		if err == nil {
			tc := c.(*net.TCPConn)
			tc.SetNoDelay(true)
			return tc, nil
		}
		last = err
		time.Sleep(connectPause)
	}
	return nil, last
}

func isReset(err error) bool {
	return errors.Is(err, syscall.ECONNRESET) || errors.Is(err, syscall.EPIPE) || errors.Is(err, syscall.ECONNABORTED)
}

type rxResult struct {
	data   []byte
	status string
}

func readAll(c *net.TCPConn, done chan<- rxResult) {
	var buf bytes.Buffer
	tmp := make([]byte, 65536)
	for {
		n, err := c.Read(tmp)
		buf.Write(tmp[:n])
		if err != nil {
			st := "ERR:" + strings.ReplaceAll(err.Error(), "\t", " ")
			if err == io.EOF {
				st = "EOF"
			} else if isReset(err) {
				st = "RESET"
			} else if ne, ok := err.(net.Error); ok && ne.Timeout() {
				st = "TIMEOUT"
			}
			done <- rxResult{buf.Bytes(), st}
			return
		}
	}
}

func parseSizes(spec string, n int) []int {
	switch spec {
	case "one", "", "-":
		return []int{n}
	case "bytes":
		return sizesFromCuts(n, func(int) bool { return true })
	}
	var sizes []int
	for _, p := range strings.Split(spec, ",") {
		v, _ := strconv.Atoi(p)
		sizes = append(sizes, v)
	}
	return sizes
}

func runCase(addr string, stream []byte, sizes []int, mode string, pauseEvery int) (string, []byte) {
	c, err := dial(addr)
	if err != nil {
		slow() // the server is gone: the remaining cases are skipped after a few of these
		return "CONNFAIL", nil
	}
	defer c.Close()
	c.SetReadDeadline(time.Now().Add(readDeadline))
	done := make(chan rxResult, 1)
	go readAll(c, done)
	for i, ch := range split(stream, sizes) {
		if _, err := c.Write(ch); err != nil {
			break // the server closed on us (protocol error earlier in the stream): keep reading
		}
		if pauseEvery > 0 && (i+1)%pauseEvery == 0 {
			time.Sleep(150 * time.Microsecond)
		}
	}
	if mode == "E" {
		select {
		case r := <-done:
			return r.status, r.data
		case <-time.After(patience(selfCloseWait)):
			slow()
			c.CloseWrite()
			r := <-done
			return r.status + "-AFTER-SHUTDOWN", r.data
		}
	}
	c.CloseWrite()
	c.SetReadDeadline(time.Now().Add(patience(readDeadline)))
	r := <-done
	if r.status == "TIMEOUT" {
		slow()
	}
	return r.status, r.data
}

// Waiting out a deadline only happens when something is already wrong; after a few such cases
// the remaining ones get a short deadline so that a broken server is reported in minutes.
var (
	slowMu    sync.Mutex
	slowCount int
)

func slow() {
	slowMu.Lock()
	slowCount++
	slowMu.Unlock()
}

func tooSlow() bool {
	slowMu.Lock()
	defer slowMu.Unlock()
	return slowCount >= 6
}

func patience(d time.Duration) time.Duration {
	slowMu.Lock()
	defer slowMu.Unlock()
	if slowCount >= 3 && d > 1500*time.Millisecond {
		return 1500 * time.Millisecond
	}
	return d
}

var pingCmd = []byte("*1\r\n$4\r\nPING\r\n")
var pongTail = []byte("+PONG\r\n")

type witness struct {
	addr string
	c    *net.TCPConn
	n    int
}

// send probe then PING on the long-lived connection; everything before the final +PONG is the
// probe's reply
func (w *witness) check(probe []byte) (string, []byte) {
	if w.c == nil {
		c, err := dial(w.addr)
		if err != nil {
			return "WFAIL:connect", nil
		}
		w.c = c
	}
	w.n++
	w.c.SetDeadline(time.Now().Add(witnessWait))
	if _, err := w.c.Write(append(append([]byte{}, probe...), pingCmd...)); err != nil {
		w.c.Close()
		w.c = nil
		return "WFAIL:write", nil
	}
	var buf []byte
	tmp := make([]byte, 65536)
	for !bytes.HasSuffix(buf, pongTail) {
		n, err := w.c.Read(tmp)
		buf = append(buf, tmp[:n]...)
		if err != nil {
			w.c.Close()
			w.c = nil
			return "WFAIL:read", buf
		}
	}
	return "WOK", buf[:len(buf)-len(pongTail)]
}

func cmdTCP(args []string) error {
	if len(args) < 3 {
		return fmt.Errorf("usage: tcp <addr> <cases> <out> [workers] [selfclose_ms]")
	}
	addr := args[0]
	nw := 6
	if len(args) > 3 {
		nw, _ = strconv.Atoi(args[3])
	}
	if len(args) > 4 { // how long a mode-E case waits for the server to close by itself
		if ms, err := strconv.Atoi(args[4]); err == nil && ms > 0 {
			selfCloseWait = time.Duration(ms) * time.Millisecond
		}
	}
	data, err := os.ReadFile(args[1])
	if err != nil {
		return err
	}
	var cases []string
	for _, l := range strings.Split(string(data), "\n") {
		if l != "" {
			cases = append(cases, l)
		}
	}
	results := make([]string, len(cases))
	var mu sync.Mutex
	next := 0
	var wg sync.WaitGroup
	for k := 0; k < nw; k++ {
		wg.Add(1)
		go func() {
			defer wg.Done()
			w := &witness{addr: addr}
			defer func() {
				if w.c != nil {
					w.c.Close()
				}
			}()
			w.check(nil) // open it before the first case
			for {
				mu.Lock()
				i := next
				next++
				mu.Unlock()
				if i >= len(cases) {
					return
				}
				f := strings.Split(cases[i], "\t")
				for len(f) < 6 {
					f = append(f, "-")
				}
				stream, e1 := unhx(f[1])
				probe, e2 := unhx(f[5])
				if e1 != nil || e2 != nil {
					results[i] = f[0] + "\tERR:bad hex\t-\tWOK\t-"
					continue
				}
				pe, _ := strconv.Atoi(f[4])
				if tooSlow() {
					// several cases already waited out a deadline: the server is broken in a way
					// the caller will report from those; do not spend minutes on the rest
					results[i] = f[0] + "\tSKIPPED\t-\tWOK\t-"
					continue
				}
				st, rx := runCase(addr, stream, parseSizes(f[2], len(stream)), f[3], pe)
				ws, prx := w.check(probe)
				h := func(b []byte) string {
					if len(b) == 0 {
						return "-"
					}
					return hxFull(b)
				}
				results[i] = fmt.Sprintf("%s\t%s\t%s\t%s\t%s", f[0], st, h(rx), ws, h(prx))
			}
		}()
	}
	wg.Wait()
	of, err := os.Create(args[2])
	if err != nil {
		return err
	}
	bw := bufio.NewWriterSize(of, 1<<20)
	for _, r := range results {
		bw.WriteString(r)
		bw.WriteByte('\n')
	}
	bw.Flush()
	return of.Close()
}
