package main

// Case generation. Every random choice derives from the seed (VERIF_SEED).
// Output: one case per line "<id>\t<hex stream or ->\t<chunk spec>\t<seed>".
//   id prefix  e: exhaustive small malformed alphabet   s: hand-written specials
//              v: valid pipelines                        m: mutations of valid pipelines
//              g: random garbage over the RESP alphabet

import (
	"bufio"
	"fmt"
	"os"
	"strconv"
)

func init() {
	subcmds["gen"] = cmdGen
}

func encodeCmd(args [][]byte) []byte {
	out := []byte("*" + strconv.Itoa(len(args)) + "\r\n")
	for _, a := range args {
		out = append(out, []byte("$"+strconv.Itoa(len(a))+"\r\n")...)
		out = append(out, a...)
		out = append(out, '\r', '\n')
	}
	return out
}

var nasty = []byte{'\r', '\n', 0, 0xff, '$', '*', '+', '-', ':', '0', '1', '9', 'a', ' ', 0x80, 'Z'}

func randArg(r *rng, big bool) []byte {
	var n int
	switch k := r.intn(100); {
	case k < 10:
		n = 0
	case k < 70:
		n = 1 + r.intn(8)
	case k < 92:
		n = 9 + r.intn(40)
	case k < 97:
		n = 100 + r.intn(400)
	default:
		if big {
			switch r.intn(4) {
			case 0:
				n = 4090 + r.intn(12) // around the 4096-byte bufio buffer
			case 1:
				n = 8185 + r.intn(12)
			case 2:
				n = 20000 + r.intn(1000)
			default:
				n = 1000 + r.intn(3000)
			}
		} else {
			n = 100 + r.intn(400)
		}
	}
	b := make([]byte, n)
	mode := r.intn(4)
	for i := range b {
		switch mode {
		case 0:
			b[i] = nasty[r.intn(len(nasty))]
		case 1:
			b[i] = byte(r.intn(256))
		case 2: // lots of CRLF pairs and things that look like RESP headers
			b[i] = "\r\n$*1\r\n"[r.intn(7)]
		default:
			if r.intn(3) == 0 {
				b[i] = nasty[r.intn(len(nasty))]
			} else {
				b[i] = byte('a' + r.intn(26))
			}
		}
	}
	if mode == 2 && n >= 2 && r.intn(2) == 0 { // payload ending in CR / CRLF
		b[n-2], b[n-1] = '\r', '\n'
	}
	return b
}

func randPipeline(r *rng, big bool) []byte {
	var out []byte
	nc := 1 + r.intn(6)
	if r.intn(10) == 0 {
		nc = 10 + r.intn(30)
	}
	for c := 0; c < nc; c++ {
		na := 1 + r.intn(4)
		if r.intn(12) == 0 {
			na = 5 + r.intn(20)
		}
		args := make([][]byte, na)
		for i := range args {
			args[i] = randArg(r, big)
		}
		out = append(out, encodeCmd(args)...)
	}
	return out
}

var lengthSubst = []string{"-1", "-2", "0", "1", "9223372036854775807", "9223372036854775808",
	"-9223372036854775808", "9223372036854775806", "9223372036854775805", "536870912", "536870913",
	"99999999999", "4294967296", "2147483648", "+3", "03", "-0", "", " 3", "3 ", "1_0", "0x1", "１"}

var junkLines = []string{"\n", "\r\n", "x\n", "+OK\r\n", "-ERR x\r\n", ":12\r\n", ":x\r\n", ":\r\n",
	"$-1\r\n", "*-1\r\n", "*0\r\n", "$0\r\n\r\n", "$\r\n", "*\r\n", "PING\r\n", "\r", "*1\r\n", "$3\r\n",
	"*2\r\n$1\r\nx\r\n", "+\r\n", "a\r\r\n", "\n\n", "$1\r\nab\r\n", "$2\r\na\r\n"}

// digit runs that follow '$' or '*' at the start of a line
func headerRuns(s []byte) [][2]int {
	var runs [][2]int
	for i := 0; i < len(s); i++ {
		if (s[i] == '$' || s[i] == '*') && (i == 0 || s[i-1] == '\n') {
			j := i + 1
			for j < len(s) && s[j] >= '0' && s[j] <= '9' {
				j++
			}
			if j > i+1 {
				runs = append(runs, [2]int{i + 1, j})
			}
		}
	}
	return runs
}

func bigAlloc(s []byte) bool {
	for i := 0; i < len(s); i++ {
		if s[i] == '$' {
			j := i + 1
			if j < len(s) && s[j] == '+' {
				j++
			}
			k := j
			for k < len(s) && s[k] >= '0' && s[k] <= '9' {
				k++
			}
			if k > j && k-j <= 12 {
				v, _ := strconv.ParseInt(string(s[j:k]), 10, 64)
				if v > 1<<24 && v <= 1<<29 {
					return true
				}
			}
		}
	}
	return false
}

func splice(s []byte, lo, hi int, repl []byte) []byte {
	out := make([]byte, 0, len(s)+len(repl))
	out = append(out, s[:lo]...)
	out = append(out, repl...)
	out = append(out, s[hi:]...)
	return out
}

func mutate(r *rng, s []byte) []byte {
	if len(s) == 0 {
		return []byte("\n")
	}
	switch r.intn(11) {
	case 0: // flip a byte to an interesting one
		i := r.intn(len(s))
		return splice(s, i, i+1, []byte{nasty[r.intn(len(nasty))]})
	case 1: // flip to a random byte
		i := r.intn(len(s))
		return splice(s, i, i+1, []byte{byte(r.intn(256))})
	case 2: // drop
		i := r.intn(len(s))
		return splice(s, i, i+1, nil)
	case 3: // duplicate
		i := r.intn(len(s))
		return splice(s, i, i+1, []byte{s[i], s[i]})
	case 4: // truncate
		return s[:r.intn(len(s))]
	case 5, 6: // length +-1
		runs := headerRuns(s)
		if len(runs) == 0 {
			return s[:r.intn(len(s))]
		}
		rn := runs[r.intn(len(runs))]
		v, _ := strconv.Atoi(string(s[rn[0]:rn[1]]))
		if r.intn(2) == 0 {
			v++
		} else {
			v--
		}
		return splice(s, rn[0], rn[1], []byte(strconv.Itoa(v)))
	case 7: // odd / huge / negative length
		runs := headerRuns(s)
		if len(runs) == 0 {
			return append([]byte("$9223372036854775807\r\n"), s...)
		}
		rn := runs[r.intn(len(runs))]
		return splice(s, rn[0], rn[1], []byte(lengthSubst[r.intn(len(lengthSubst))]))
	case 8: // nested array header in front of some line
		var starts []int
		for i := 0; i < len(s); i++ {
			if i == 0 || s[i-1] == '\n' {
				starts = append(starts, i)
			}
		}
		i := starts[r.intn(len(starts))]
		return splice(s, i, i, []byte("*"+strconv.Itoa(r.intn(4))+"\r\n"))
	case 9: // junk line at a line start
		var starts []int
		for i := 0; i <= len(s); i++ {
			if i == 0 || s[i-1] == '\n' {
				starts = append(starts, i)
			}
		}
		i := starts[r.intn(len(starts))]
		return splice(s, i, i, []byte(junkLines[r.intn(len(junkLines))]))
	default: // junk anywhere
		i := r.intn(len(s) + 1)
		return splice(s, i, i, []byte(junkLines[r.intn(len(junkLines))]))
	}
}

var specials = []string{
	"", "\n", "\r", "\r\n", "\n\n", "*", "$", "*\n", "$\n", "*\r\n", "$\r\n", "a", "a\n", "a\r\n", "ab\r\n",
	"*1\r\n$1\r\na\r\n", "*1\r\n$0\r\n\r\n", "*0\r\n", "*-1\r\n", "$-1\r\n", "$0\r\n\r\n", "$1\r\na\r\n",
	"*1\r\n$-1\r\n", "*1\r\n+a\r\n", "*1\r\n:1\r\n", "*1\r\n-a\r\n", "*1\r\nab\r\n", "*1\r\n\r\n", "*1\r\n\n",
	"*1\r\n*1\r\n", "*2\r\n*1\r\n", "*1\r\n$1\r\n", "*1\r\n$1\r\na", "*1\r\n$1\r\na\r", "*1\r\n$1\r\na\n\n",
	"$1\r\n\r\r\n", "$1\r\n\n\r\n", "$2\r\n\r\n\r\n", "$1\r\nabc", "$1\r\nab\n", "$+1\r\na\r\n", "$01\r\na\r\n",
	"$-0\r\n\r\n", "*+1\r\n", "*01\r\n", "*-0\r\n", ":1\r\n", ":-1\r\n", ":+1\r\n", ":a\r\n", ":\r\n", "+\r\n", "-\r\n",
	"+a\rb\r\n", "+a\nb\r\n", "$-2\r\n", "*-2\r\n", "$ 1\r\n", "$1 \r\n", "*1 \r\n",
	"*1\r\n$9223372036854775807\r\n", "*1\r\n$9223372036854775806\r\n", "*1\r\n$9223372036854775805\r\nabc",
	"*1\r\n$9223372036854775808\r\n", "*1\r\n$-9223372036854775808\r\n", "*1\r\n$536870913\r\nabc",
	"*1\r\n$99999999999\r\nabc", "*1\r\n$4294967296\r\nabc", "*1\r\n$2147483648\r\nabc",
	"*9223372036854775807\r\n$1\r\na\r\n", "*9223372036854775808\r\n", "*2147483648\r\n$1\r\na\r\n",
	"$536870912\r\nabc",
	"*3\r\n$5\r\nhello\r\n$-1\r\n$5\r\nworld\r\n",
	"*2\r\n*3\r\n:1\r\n:2\r\n:3\r\n*2\r\n+Hello\r\n-World\r\n",
	"$5\r\nhello\r\n$-1\r\n$5\r\nworld\r\n",
	"*2\r\n$3\r\nGET\r\n*1\r\n$4\r\nPING\r\n",
	"*1\r\nXPING\r\n", "*3\r\nXSET\r\nXk\r\nXv\r\n", "PING\r\n", "GET / HTTP/1.1\r\nHost: x\r\n\r\n",
	"*1\r\n$4\r\nPING\r\n\n*1\r\n$4\r\nPING\r\n",
	"*1\r\n$4\r\nPING\r\n*1\r\n$4\r\nPINGxx*1\r\n$4\r\nPING\r\n",
	"*2\r\n$4\r\nPING\r\n$4\r\na\r\nb\r\n*1\r\n$4\r\nPING\r\n",
	"*1\r\n$2\r\n\r\n\r\n", "*1\r\n$1\r\n\n\r\n", "*1\r\n$1\r\n\r\r\n",
}

var smallAlphabet = []byte{'*', '$', '+', '-', ':', '0', '1', '9', '\r', '\n', 'a'}

// gen <out> <quick|thorough> <seed>
func cmdGen(args []string) error {
	if len(args) < 3 {
		return fmt.Errorf("usage: gen <out> <quick|thorough> <seed>")
	}
	thorough := args[1] == "thorough"
	seed, _ := strconv.ParseUint(args[2], 10, 64)
	f, err := os.Create(args[0])
	if err != nil {
		return err
	}
	w := bufio.NewWriterSize(f, 1<<20)
	nBig := 0
	emit := func(id string, s []byte, spec string) {
		// a bulk header between 16 MB and the 512 MB limit makes the parser allocate that much:
		// correct, but slow; keep a handful of such cases and observe them under one chunking
		if bigAlloc(s) {
			nBig++
			if nBig > 6 {
				return
			}
			spec = "c:7"
		}
		h := hxFull(s)
		if h == "" {
			h = "-"
		}
		fmt.Fprintf(w, "%s\t%s\t%s\t%d\n", id, h, spec, seed)
	}
	// specials: all chunkings when short, sampled otherwise
	for i, s := range specials {
		spec := "r12"
		if len(s) <= 12 {
			spec = "all"
		}
		emit(fmt.Sprintf("s%d", i), []byte(s), spec)
	}
	// every byte string of length <= maxLen over the small alphabet, all chunkings
	maxLen := 4
	if thorough {
		maxLen = 5
	}
	n := 0
	var rec func(prefix []byte)
	rec = func(prefix []byte) {
		if len(prefix) > 0 {
			emit(fmt.Sprintf("e%d", n), prefix, "all")
			n++
		}
		if len(prefix) == maxLen {
			return
		}
		for _, c := range smallAlphabet {
			rec(append(append([]byte{}, prefix...), c))
		}
	}
	rec(nil)
	// small valid commands completed with every 1..2-symbol continuation (exhaustive chunkings)
	for i, base := range []string{"*1\r\n$1\r\na\r\n", "*1\r\n$0\r\n\r\n", "$1\r\na\r\n", "*1\r\n$-1\r\n", "*1\r\n$1\r\n"} {
		k := 0
		for _, c := range smallAlphabet {
			s := append([]byte(base), c)
			if len(s) <= 12 {
				emit(fmt.Sprintf("s%dx%d", i, k), s, "all")
				k++
			}
		}
	}
	r := newRng(seed)
	nValid, nMut, nGarb := 600, 3000, 1500
	spec := "r6"
	if thorough {
		nValid, nMut, nGarb = 8000, 60000, 30000
		spec = "r16"
	}
	valid := make([][]byte, 0, nValid)
	for i := 0; i < nValid; i++ {
		s := randPipeline(r, true)
		valid = append(valid, s)
		emit(fmt.Sprintf("v%d", i), s, spec)
	}
	for i := 0; i < nMut; i++ {
		var s []byte
		if r.intn(4) == 0 {
			s = valid[r.intn(len(valid))]
		} else {
			s = randPipeline(r, false)
		}
		if len(s) > 3000 { // keep mutants readable in replays
			s = randPipeline(r, false)
		}
		s = mutate(r, s)
		for r.intn(3) == 0 {
			s = mutate(r, s)
		}
		emit(fmt.Sprintf("m%d", i), s, spec)
	}
	resp := []byte("*$+-:0123456789\r\n\r\n\r\naZ \x00\xff")
	for i := 0; i < nGarb; i++ {
		l := 1 + r.intn(40)
		s := make([]byte, l)
		for j := range s {
			s[j] = resp[r.intn(len(resp))]
		}
		emit(fmt.Sprintf("g%d", i), s, spec)
	}
	if err := w.Flush(); err != nil {
		return err
	}
	return f.Close()
}
