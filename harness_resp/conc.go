package main

// concurrent: the concurrent slow-reader scenario of C03 (replies of different connections must
// not share memory that is still being written).
//
//   concurrent <addr> <outdir> <victims> <heavy> <rounds> <pause_ms> <sizeA> <sizeB>
//
// setup (one connection): two big lists, conc:bigA (elements of 65521 bytes, about sizeA bytes
// in all) and conc:bigB (elements of 70001 bytes, about sizeB), every element different and full
// of CRLF / reply-looking fragments.  Then `rounds` times:
//   * `victims` connections with a small receive buffer each send  LRANGE conc:bigA 0 -1 ; PING  in
//     one write and do not read for pause_ms: their reply is larger than the socket buffers, so
//     the server is inside conn.Write, the tail of the reply still in its own memory;
//   * 100 ms later `heavy` other connections each send  LRANGE conc:bigB 0 -1 ; PING  and read at
//     once: other big array replies are encoded and written meanwhile;
//   * then the victims read to EOF.
// The commands are read-only and the keys never change, so all victims must receive the very same
// bytes, and so must all heavy connections: the harness compares them (SHA-256) and writes ONE
// c03run input (<outdir>/conc.c03in):  CASE conc = the setup commands, then the victim's commands,
// then the heavy connection's commands, with the bytes of the setup connection, of the first
// victim and of the first heavy connection -- to be decoded by the extracted decoder and compared
// with the extracted command model; every connection whose bytes differ from its class's first
// gets a CASE of its own (setup + its commands).  stdout: one JSON object.

import (
	"bytes"
	"crypto/sha256"
	"encoding/hex"
	"encoding/json"
	"fmt"
	"io"
	"net"
	"os"
	"path/filepath"
	"strconv"
	"sync"
	"syscall"
	"time"
)

func init() { subcmds["concurrent"] = cmdConcurrent }

func dialRcvbuf(addr string, rcvbuf int) (*net.TCPConn, error) {
	d := net.Dialer{Timeout: 10 * time.Second, Control: func(network, address string, c syscall.RawConn) error {
		if rcvbuf <= 0 {
			return nil
		}
		return c.Control(func(fd uintptr) {
			syscall.SetsockoptInt(int(fd), syscall.SOL_SOCKET, syscall.SO_RCVBUF, rcvbuf)
		})
	}}
	var last error
	for i := 0; i < 40; i++ {
		c, err := d.Dial("tcp", addr)
		if err == nil {
			tc := c.(*net.TCPConn)
			tc.SetNoDelay(true)
			return tc, nil
		}
		last = err
		time.Sleep(50 * time.Millisecond)
	}
	return nil, last
}

func concElem(tag byte, i, n int) []byte {
	v := make([]byte, n)
	for j := range v {
		v[j] = byte((j*13 + i*31 + int(tag)) % 253)
	}
	copy(v, []byte(fmt.Sprintf("%c%04d\r\n$5\r\n", tag, i)))
	frag := []byte("\r\n+PONG\r\n*2\r\n$1\r\n")
	for off := 500 + i; off+len(frag) < n; off += 8191 {
		copy(v[off:], frag)
	}
	if n >= 2 && i%2 == 0 {
		v[n-2], v[n-1] = '\r', '\n'
	}
	return v
}

type concConn struct {
	Class  string `json:"class"`
	Round  int    `json:"round"`
	Status string `json:"status"`
	Bytes  int    `json:"bytes"`
	Sha    string `json:"sha"`
	raw    []byte
}

func readToEOF(c *net.TCPConn) ([]byte, string) {
	c.SetReadDeadline(time.Now().Add(10 * time.Minute))
	var buf bytes.Buffer
	_, err := io.Copy(&buf, c)
	st := "EOF"
	if err != nil {
		st = "ERR:read"
		if isReset(err) {
			st = "RESET"
		} else if ne, ok := err.(net.Error); ok && ne.Timeout() {
			st = "TIMEOUT"
		}
	}
	return buf.Bytes(), st
}

func cmdLine(cmd [][]byte) string {
	s := "C"
	for _, a := range cmd {
		if len(a) == 0 {
			s += " -"
		} else {
			s += " " + hex.EncodeToString(a)
		}
	}
	return s + "\n"
}

func cmdConcurrent(args []string) error {
	if len(args) < 8 {
		return fmt.Errorf("usage: concurrent <addr> <outdir> <victims> <heavy> <rounds> <pause_ms> <sizeA> <sizeB>")
	}
	addr, outdir := args[0], args[1]
	nv, _ := strconv.Atoi(args[2])
	nh, _ := strconv.Atoi(args[3])
	rounds, _ := strconv.Atoi(args[4])
	pause, _ := strconv.Atoi(args[5])
	sizeA, _ := strconv.Atoi(args[6])
	sizeB, _ := strconv.Atoi(args[7])
	keyA, keyB := []byte("conc:bigA\r\n"), []byte("conc:bigB")

	// ---- setup
	var setupCmds [][][]byte
	build := func(key []byte, tag byte, elem, total int) {
		n := total/elem + 1
		for i := 0; i < n; i += 8 {
			cmd := [][]byte{[]byte("RPUSH"), key}
			for j := i; j < i+8 && j < n; j++ {
				cmd = append(cmd, concElem(tag, j, elem))
			}
			setupCmds = append(setupCmds, cmd)
		}
	}
	build(keyA, 'A', 65521, sizeA)
	build(keyB, 'B', 70001, sizeB)
	sc, err := dialRcvbuf(addr, 0)
	if err != nil {
		fmt.Println(`{"error":"connect"}`)
		return nil
	}
	go func() {
		for _, c := range setupCmds {
			sc.Write(encodeCmd(c))
		}
		sc.CloseWrite()
	}()
	setupRaw, st := readToEOF(sc)
	sc.Close()
	if st != "EOF" {
		fmt.Printf(`{"error":"setup %s"}`+"\n", st)
		return nil
	}
	victimCmds := [][][]byte{{[]byte("LRANGE"), keyA, []byte("0"), []byte("-1")}, {[]byte("PING")}}
	heavyCmds := [][][]byte{{[]byte("LRANGE"), keyB, []byte("0"), []byte("-1")}, {[]byte("PING")}}
	pipe := func(cmds [][][]byte) []byte {
		var b []byte
		for _, c := range cmds {
			b = append(b, encodeCmd(c)...)
		}
		return b
	}

	// ---- rounds
	var all []*concConn
	var mu sync.Mutex
	for r := 0; r < rounds; r++ {
		var wg sync.WaitGroup
		for i := 0; i < nv; i++ {
			wg.Add(1)
			go func() {
				defer wg.Done()
				cc := &concConn{Class: "victim", Round: r}
				c, err := dialRcvbuf(addr, 65536)
				if err != nil {
					cc.Status = "CONNFAIL"
				} else {
					c.Write(pipe(victimCmds))
					time.Sleep(time.Duration(pause) * time.Millisecond)
					c.CloseWrite()
					cc.raw, cc.Status = readToEOF(c)
					c.Close()
				}
				mu.Lock()
				all = append(all, cc)
				mu.Unlock()
			}()
		}
		time.Sleep(100 * time.Millisecond)
		for i := 0; i < nh; i++ {
			wg.Add(1)
			go func() {
				defer wg.Done()
				cc := &concConn{Class: "heavy", Round: r}
				c, err := dialRcvbuf(addr, 0)
				if err != nil {
					cc.Status = "CONNFAIL"
				} else {
					c.Write(pipe(heavyCmds))
					c.CloseWrite()
					cc.raw, cc.Status = readToEOF(c)
					c.Close()
				}
				mu.Lock()
				all = append(all, cc)
				mu.Unlock()
			}()
		}
		wg.Wait()
	}

	// ---- compare within the classes, write the c03run input
	first := map[string]*concConn{}
	var odd []*concConn
	for _, cc := range all {
		h := sha256.Sum256(cc.raw)
		cc.Sha = hex.EncodeToString(h[:8])
		cc.Bytes = len(cc.raw)
		if f, ok := first[cc.Class]; !ok {
			first[cc.Class] = cc
		} else if cc.Sha != f.Sha || cc.Status != f.Status {
			odd = append(odd, cc)
		}
	}
	now := time.Now()
	f, err := os.Create(filepath.Join(outdir, "conc.c03in"))
	if err != nil {
		return err
	}
	w := func(name string, cmds [][][]byte, status string, raw []byte) {
		fmt.Fprintf(f, "CASE %s 16 %d %d\n", name, now.Unix(), now.UnixMilli())
		for _, c := range setupCmds {
			f.WriteString(cmdLine(c))
		}
		for _, c := range cmds {
			f.WriteString(cmdLine(c))
		}
		fmt.Fprintf(f, "R %s %s\nEND\n", status, hex.EncodeToString(append(append([]byte{}, setupRaw...), raw...)))
	}
	fv, fh := first["victim"], first["heavy"]
	if fv != nil && fh != nil {
		st := fv.Status
		if st == "EOF" {
			st = fh.Status
		}
		w("conc", append(append([][][]byte{}, victimCmds...), heavyCmds...), st, append(append([]byte{}, fv.raw...), fh.raw...))
	}
	for i, cc := range odd {
		if i >= 3 {
			break
		}
		cmds := victimCmds
		if cc.Class == "heavy" {
			cmds = heavyCmds
		}
		w(fmt.Sprintf("odd%d_%s_round%d", i, cc.Class, cc.Round), cmds, cc.Status, cc.raw)
	}
	f.Close()
	nodd := map[string]int{}
	for _, cc := range odd {
		nodd[cc.Class]++
	}
	sum := map[string]any{"connections": len(all), "victims": nv, "heavy": nh, "rounds": rounds, "pause_ms": pause,
		"setup_commands": len(setupCmds), "victim_reply_bytes": 0, "heavy_reply_bytes": 0, "odd": nodd, "odd_total": len(odd)}
	if fv != nil {
		sum["victim_reply_bytes"] = fv.Bytes
	}
	if fh != nil {
		sum["heavy_reply_bytes"] = fh.Bytes
	}
	out, _ := json.Marshal(sum)
	fmt.Println(string(out))
	return nil
}
