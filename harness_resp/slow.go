package main

// slowread: the slow-reader scenario of C03.
//
//   slowread <addr> <size> <pause_ms> <raw-out> <value-out> [rcvbuf]
//
// One connection with a small receive buffer (SO_RCVBUF set before connecting, so the kernel does
// not grow it): SET k <value of `size` bytes>, wait for +OK; then GET k and PING in ONE write;
// then the client does not read for pause_ms; then it half-closes and reads to EOF.  Every byte
// received after the +OK goes to <raw-out>, the value to <value-out>.  With `size` larger than
// what the server's send buffer plus our receive buffer can hold, the server is inside
// conn.Write of the GET reply during the whole pause.  A correct server just stays there until
// the client reads (no deadline on this side either: 10 minutes); what the client then reads
// must be the two replies.
// stdout: one line  <status> <bytes received> <receive-queue bytes at wake-up> <ms spent reading>

import (
	"fmt"
	"io"
	"net"
	"os"
	"strconv"
	"syscall"
	"time"
	"unsafe"
)

func init() { subcmds["slowread"] = cmdSlowRead }

// slowValue is deterministic and full of things a confused decoder would trip over: CRLF pairs,
// reply-looking fragments, every byte value.
func slowValue(n int) []byte {
	v := make([]byte, n)
	for i := range v {
		v[i] = byte((i*7 + i/251 + 3) % 251)
	}
	frag := []byte("\r\n+PONG\r\n$5\r\nhello\r\n:1\r\n*2\r\n-ERR x\r\n")
	for off := 1000; off+len(frag) < n; off += 65521 {
		copy(v[off:], frag)
	}
	return v
}

func inq(c *net.TCPConn) int {
	rc, err := c.SyscallConn()
	if err != nil {
		return -1
	}
	n := int32(-1)
	rc.Control(func(fd uintptr) {
		syscall.Syscall(syscall.SYS_IOCTL, fd, 0x541B /* FIONREAD */, uintptr(unsafe.Pointer(&n)))
	})
	return int(n)
}

func cmdSlowRead(args []string) error {
	if len(args) < 5 {
		return fmt.Errorf("usage: slowread <addr> <size> <pause_ms> <raw-out> <value-out> [rcvbuf]")
	}
	size, _ := strconv.Atoi(args[1])
	pause, _ := strconv.Atoi(args[2])
	rcvbuf := 131072
	if len(args) > 5 {
		rcvbuf, _ = strconv.Atoi(args[5])
	}
	c, err := dialRcvbuf(args[0], rcvbuf)
	if err != nil {
		fmt.Println("CONNFAIL 0 0 0")
		return nil
	}
	defer c.Close()
	val := slowValue(size)
	if err := os.WriteFile(args[4], val, 0644); err != nil {
		return err
	}
	key := []byte("slow:reader\r\nkey")
	c.SetDeadline(time.Now().Add(5 * time.Minute))
	if _, err := c.Write(encodeCmd([][]byte{[]byte("SET"), key, val})); err != nil {
		fmt.Println("ERR:set-write 0 0 0")
		return nil
	}
	ok := make([]byte, 5)
	if _, err := io.ReadFull(c, ok); err != nil || string(ok) != "+OK\r\n" {
		fmt.Printf("ERR:set-reply:%q 0 0 0\n", ok)
		return nil
	}
	pipe := append(encodeCmd([][]byte{[]byte("GET"), key}), encodeCmd([][]byte{[]byte("PING")})...)
	if _, err := c.Write(pipe); err != nil {
		fmt.Println("ERR:get-write 0 0 0")
		return nil
	}
	time.Sleep(time.Duration(pause) * time.Millisecond)
	q := inq(c)
	c.CloseWrite()
	c.SetDeadline(time.Now().Add(10 * time.Minute))
	t0 := time.Now()
	f, err := os.Create(args[3])
	if err != nil {
		return err
	}
	n, rerr := io.Copy(f, c)
	f.Close()
	st := "EOF"
	if rerr != nil {
		st = "ERR:read"
		if isReset(rerr) {
			st = "RESET"
		} else if ne, ok := rerr.(net.Error); ok && ne.Timeout() {
			st = "TIMEOUT"
		}
	}
	fmt.Printf("%s %d %d %d\n", st, n, q, time.Since(t0).Milliseconds())
	return nil
}
