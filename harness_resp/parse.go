package main

// In-process differential runs of resp.ParseStream.
//
// The parser runs in its own goroutine, so a panic there cannot be recovered by the caller:
// `run` therefore drives `child` processes over pipes, one case at a time; a child that dies
// is reported as CRASH for the case it was working on and replaced.

import (
	"bufio"
	"context"
	"encoding/hex"
	"fmt"
	"io"
	"os"
	"os/exec"
	"strconv"
	"strings"
	"sync"
	"time"

	"github.com/innovationb1ue/RedisGO/config"
	"github.com/innovationb1ue/RedisGO/logger"
	"github.com/innovationb1ue/RedisGO/resp"
)

func init() {
	subcmds["child"] = cmdChild
	subcmds["run"] = cmdRun
}

// ---------------------------------------------------------------- canonical text

func hxFull(b []byte) string { return hex.EncodeToString(b) }

// hx renders a byte string for comparison with ml/resprun.ml: hex, or for strings longer than
// 256 bytes  #<length>:<FNV-1a 64>  (the length-boundary cases carry arguments of up to MiBs).
func hx(b []byte) string {
	if len(b) <= 256 {
		return hex.EncodeToString(b)
	}
	h := uint64(0xcbf29ce484222325)
	for _, c := range b {
		h = (h ^ uint64(c)) * 0x100000001b3
	}
	return fmt.Sprintf("#%d:%016x", len(b), h)
}

func unhx(s string) ([]byte, error) {
	if s == "-" || s == "" {
		return []byte{}, nil
	}
	return hex.DecodeString(s)
}

// dataText renders a RedisData the same way ml/resprun.ml renders a Coq `reply`.
func dataText(d resp.RedisData) string {
	switch v := d.(type) {
	case *resp.BulkData:
		if v.Data() == nil {
			return "n"
		}
		return "b:" + hx(v.Data())
	case *resp.StringData:
		return "s:" + hx([]byte(v.Data()))
	case *resp.ErrorData:
		return "e:" + hx([]byte(v.Error()))
	case *resp.IntData:
		return "i:" + strconv.FormatInt(v.Data(), 10)
	case *resp.PlainData:
		return "p:" + hx([]byte(v.Data()))
	case *resp.ArrayData:
		if v.Data() == nil {
			return "AN"
		}
		parts := make([]string, 0, len(v.Data()))
		for _, e := range v.Data() {
			parts = append(parts, dataText(e))
		}
		return "A[" + strings.Join(parts, ",") + "]"
	case nil:
		return "NODATA"
	default:
		return fmt.Sprintf("UNKNOWN<%T>", d)
	}
}

func eventText(pr *resp.ParsedRes) string {
	if pr.Err != nil {
		if pr.Err == io.EOF {
			return "EOF"
		}
		return "ERR"
	}
	if _, ok := pr.Data.(*resp.ArrayData); ok {
		return dataText(pr.Data)
	}
	return "D" + dataText(pr.Data)
}

// ---------------------------------------------------------------- chunked reader

type chunkReader struct {
	chunks [][]byte
	i, off int
}

func (r *chunkReader) Read(p []byte) (int, error) {
	for r.i < len(r.chunks) && r.off == len(r.chunks[r.i]) {
		r.i++
		r.off = 0
	}
	if r.i >= len(r.chunks) {
		return 0, io.EOF
	}
	if len(p) == 0 {
		return 0, nil
	}
	n := copy(p, r.chunks[r.i][r.off:])
	r.off += n
	return n, nil
}

func split(stream []byte, sizes []int) [][]byte {
	var out [][]byte
	pos := 0
	for _, s := range sizes {
		if pos >= len(stream) {
			break
		}
		if s <= 0 {
			continue
		}
		e := pos + s
		if e > len(stream) {
			e = len(stream)
		}
		out = append(out, stream[pos:e])
		pos = e
	}
	if pos < len(stream) {
		out = append(out, stream[pos:])
	}
	return out
}

func sizesText(sizes []int) string {
	if len(sizes) == 0 {
		return "one"
	}
	p := make([]string, len(sizes))
	for i, s := range sizes {
		p[i] = strconv.Itoa(s)
	}
	return strings.Join(p, ",")
}

// sizes from a cut mask: bit i set = cut after byte i (0 <= i < n-1)
func sizesFromCuts(n int, cut func(i int) bool) []int {
	var sizes []int
	last := 0
	for i := 0; i < n-1; i++ {
		if cut(i) {
			sizes = append(sizes, i+1-last)
			last = i + 1
		}
	}
	if n-last > 0 {
		sizes = append(sizes, n-last)
	}
	return sizes
}

// randomChunking draws one of several cut strategies, among them cuts placed exactly inside
// CRLF pairs and inside decimal lengths.
func randomChunking(r *rng, stream []byte) []int {
	n := len(stream)
	if n <= 1 {
		return []int{n}
	}
	switch r.intn(6) {
	case 0:
		return sizesFromCuts(n, func(i int) bool { return r.intn(2) == 0 })
	case 1:
		return sizesFromCuts(n, func(i int) bool { return r.intn(8) == 0 })
	case 2:
		return sizesFromCuts(n, func(i int) bool { return r.intn(64) == 0 })
	case 3: // between CR and LF, and just before CR
		return sizesFromCuts(n, func(i int) bool {
			if stream[i] == '\r' && stream[i+1] == '\n' {
				return r.intn(4) != 0
			}
			if stream[i+1] == '\r' {
				return r.intn(2) == 0
			}
			return r.intn(50) == 0
		})
	case 4: // inside lengths and right after the type byte
		return sizesFromCuts(n, func(i int) bool {
			c, d := stream[i], stream[i+1]
			if (c == '$' || c == '*' || (c >= '0' && c <= '9')) && d >= '0' && d <= '9' {
				return r.intn(3) != 0
			}
			return r.intn(40) == 0
		})
	default: // a few large pieces (exercises reads larger than the 4096 bufio buffer)
		k := 1 + r.intn(4)
		cuts := map[int]bool{}
		for j := 0; j < k; j++ {
			cuts[r.intn(n-1)] = true
		}
		return sizesFromCuts(n, func(i int) bool { return cuts[i] })
	}
}

// ---------------------------------------------------------------- one observation

var hangTimeout = 30 * time.Second

func observe(stream []byte, sizes []int) string {
	rd := &chunkReader{chunks: split(stream, sizes)}
	ctx, cancel := context.WithCancel(context.Background())
	defer cancel()
	ch := resp.ParseStream(ctx, rd)
	var evs []string
	timer := time.NewTimer(hangTimeout)
	defer timer.Stop()
	for {
		select {
		case pr, ok := <-ch:
			if !ok {
				evs = append(evs, "CLOSED")
				return strings.Join(evs, " ")
			}
			evs = append(evs, eventText(pr))
			if pr.Err == io.EOF {
				return strings.Join(evs, " ")
			}
		case <-timer.C:
			evs = append(evs, "HANG")
			return strings.Join(evs, " ")
		}
	}
}

// chunkings to try for a spec
func chunkingsFor(spec string, stream []byte, seed uint64, id string) [][]int {
	n := len(stream)
	var out [][]int
	if strings.HasPrefix(spec, "c:") {
		var sizes []int
		for _, p := range strings.Split(spec[2:], ",") {
			v, _ := strconv.Atoi(p)
			sizes = append(sizes, v)
		}
		return [][]int{sizes}
	}
	if strings.HasPrefix(spec, "x:") {
		// several explicit chunkings: one | fN (reads of N bytes) | c<size,size,...>, separated by '|'
		for _, it := range strings.Split(spec[2:], "|") {
			switch {
			case it == "one" || n <= 1:
				out = append(out, []int{n})
			case strings.HasPrefix(it, "f"):
				k, _ := strconv.Atoi(it[1:])
				if k <= 0 {
					k = 1
				}
				var sizes []int
				for p := 0; p < n; p += k {
					sizes = append(sizes, k)
				}
				out = append(out, sizes)
			case strings.HasPrefix(it, "c"):
				var sizes []int
				for _, p := range strings.Split(it[1:], ",") {
					v, _ := strconv.Atoi(p)
					sizes = append(sizes, v)
				}
				out = append(out, sizes)
			}
		}
		return out
	}
	if spec == "one" || n <= 1 {
		return [][]int{{n}}
	}
	if spec == "bytes" {
		return [][]int{sizesFromCuts(n, func(int) bool { return true })}
	}
	if spec == "all" && n <= 12 {
		for m := 0; m < 1<<(n-1); m++ {
			mm := m
			out = append(out, sizesFromCuts(n, func(i int) bool { return mm>>uint(i)&1 == 1 }))
		}
		return out
	}
	k := 6
	if strings.HasPrefix(spec, "r") {
		if v, err := strconv.Atoi(spec[1:]); err == nil {
			k = v
		}
	}
	out = append(out, []int{n})
	out = append(out, sizesFromCuts(n, func(int) bool { return true }))
	h := seed
	for _, c := range []byte(id) {
		h = h*1099511628211 + uint64(c)
	}
	r := newRng(h)
	for j := 0; j < k; j++ {
		out = append(out, randomChunking(r, stream))
	}
	return out
}

func setupLogger() error {
	dir, err := os.MkdirTemp("", "verif-resp-log-")
	if err != nil {
		return err
	}
	cfg := &config.Config{LogDir: dir, LogLevel: "panic"}
	config.Configures = cfg
	if err := logger.SetUp(cfg); err != nil {
		return err
	}
	logger.Disable()
	os.RemoveAll(dir)
	return nil
}

// child: stdin lines "<id>\t<hex>\t<spec>\t<seed>", stdout "<id>\tOK\t<n>\t<events>" or
// "<id>\tDIFF\t<sizesA>\t<eventsA>\t<sizesB>\t<eventsB>"
func cmdChild(args []string) error {
	if err := setupLogger(); err != nil {
		return err
	}
	in := bufio.NewReaderSize(os.Stdin, 1<<20)
	out := bufio.NewWriter(os.Stdout)
	for {
		line, err := in.ReadString('\n')
		line = strings.TrimRight(line, "\n")
		if line != "" {
			f := strings.Split(line, "\t")
			if len(f) < 4 {
				return fmt.Errorf("bad case line %q", line)
			}
			stream, e := unhx(f[1])
			if e != nil {
				return e
			}
			seed, _ := strconv.ParseUint(f[3], 10, 64)
			cks := chunkingsFor(f[2], stream, seed, f[0])
			ref := ""
			res := ""
			for i, sizes := range cks {
				ev := observe(stream, sizes)
				if i == 0 {
					ref = ev
				} else if ev != ref {
					res = fmt.Sprintf("%s\tDIFF\t%s\t%s\t%s\t%s", f[0], sizesText(cks[0]), ref, sizesText(sizes), ev)
					break
				}
			}
			if res == "" {
				res = fmt.Sprintf("%s\tOK\t%d\t%s", f[0], len(cks), ref)
			}
			out.WriteString(res)
			out.WriteByte('\n')
			out.Flush()
		}
		if err != nil {
			return nil
		}
	}
}

// ---------------------------------------------------------------- parent

type worker struct {
	cmd    *exec.Cmd
	stdin  io.WriteCloser
	stdout *bufio.Reader
}

func startWorker() (*worker, error) {
	c := exec.Command(os.Args[0], "child")
	c.Stderr = nil
	si, err := c.StdinPipe()
	if err != nil {
		return nil, err
	}
	so, err := c.StdoutPipe()
	if err != nil {
		return nil, err
	}
	if err := c.Start(); err != nil {
		return nil, err
	}
	return &worker{cmd: c, stdin: si, stdout: bufio.NewReaderSize(so, 1<<20)}, nil
}

func (w *worker) kill() {
	w.stdin.Close()
	w.cmd.Process.Kill()
	w.cmd.Wait()
}

// run <cases> <out> [workers] [per-case-timeout-seconds]
func cmdRun(args []string) error {
	if len(args) < 2 {
		return fmt.Errorf("usage: run <cases> <out> [workers] [timeout_s]")
	}
	nw := 8
	tmo := 180
	if len(args) > 2 {
		nw, _ = strconv.Atoi(args[2])
	}
	if len(args) > 3 {
		tmo, _ = strconv.Atoi(args[3])
	}
	data, err := os.ReadFile(args[0])
	if err != nil {
		return err
	}
	var cases []string
	for _, l := range strings.Split(string(data), "\n") {
		if l != "" {
			cases = append(cases, l)
		}
	}
	results := make([]string, len(cases))
	var mu sync.Mutex
	next := 0
	var wg sync.WaitGroup
	var firstErr error
	for k := 0; k < nw; k++ {
		wg.Add(1)
		go func() {
			defer wg.Done()
			var w *worker
			defer func() {
				if w != nil {
					w.kill()
				}
			}()
			for {
				mu.Lock()
				i := next
				next++
				mu.Unlock()
				if i >= len(cases) {
					return
				}
				id := strings.SplitN(cases[i], "\t", 2)[0]
				if w == nil {
					var e error
					w, e = startWorker()
					if e != nil {
						mu.Lock()
						firstErr = e
						mu.Unlock()
						return
					}
				}
				if _, e := io.WriteString(w.stdin, cases[i]+"\n"); e != nil {
					results[i] = id + "\tCRASH\twrite: " + e.Error()
					w.kill()
					w = nil
					continue
				}
				type rd struct {
					s string
					e error
				}
				done := make(chan rd, 1)
				go func(w *worker) {
					s, e := w.stdout.ReadString('\n')
					done <- rd{s, e}
				}(w)
				select {
				case r := <-done:
					if r.e != nil || !strings.HasSuffix(r.s, "\n") {
						results[i] = id + "\tCRASH"
						w.kill()
						w = nil
					} else {
						results[i] = strings.TrimRight(r.s, "\n")
					}
				case <-time.After(time.Duration(tmo) * time.Second):
					results[i] = id + "\tHANG"
					w.kill()
					w = nil
				}
			}
		}()
	}
	wg.Wait()
	if firstErr != nil {
		return firstErr
	}
	f, err := os.Create(args[1])
	if err != nil {
		return err
	}
	bw := bufio.NewWriterSize(f, 1<<20)
	for _, r := range results {
		bw.WriteString(r)
		bw.WriteByte('\n')
	}
	bw.Flush()
	return f.Close()
}
