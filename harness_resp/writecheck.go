package main

// writecheck: a structural obligation on the source (go/ast; conservative: a shape that is not
// recognised counts as a failure), the premise `write_atomic_or_close` of coq/Resp/ReplyLoop.v:
//
//   in the connection loops  (*Manager).Handle  and  (*Manager).HandleCluster  of package server
//   a reply write is atomic, or the connection ends at the first write that is not.
//
// Accepted shapes:
//   (S1) no write deadline: no call  X.SetWriteDeadline(..) / X.SetDeadline(..)  in the loop function
//        itself nor in any other function of package server except the other loop (a helper may
//        be called from either).  A conn.Write without a deadline returns an error only when the
//        connection is dead, and then every later write fails with nothing written;
//   (S2) deadlines are set, and EVERY  conn.Write  of that loop has the form
//            n_or_blank, err := conn.Write(..)        (err bound to a fresh variable)
//        followed in the same block -- only calls  conn.Set*Deadline(..)  may stand between --
//        by   if err != nil { ... return }   whose body ends in a return statement (the deferred
//        conn.Close() then runs): no later write on that connection is reachable after a failed
//        or short write (net.Conn.Write returns a non-nil error whenever n < len(b)).
// Also required: both functions exist, each writes to its `conn` parameter only through direct
// calls conn.Write(..) (an assignment of conn.Write to a variable, or passing conn.Write as a
// value, is not recognised and fails).
//
// Second obligation (encoders): the bytes a reply encoder returns must not be retained or reused
// after it returns -- the connection loop is still writing them while other connections encode.
// In package resp (non-test files), for every function reachable (calls followed by NAME inside the
// package, conservative) from a method named ToBytes:
//   (E1) every package-level variable it mentions is a read-only constant: declared with an
//        initialiser that is a basic literal ("\r\n") or a conversion of a string literal
//        ([]byte("$-1\r\n")), and nowhere in the package assigned to, index-assigned, appended to,
//        address-taken or used as the receiver of a method call.  Anything else (sync.Pool,
//        bytes.Buffer, a slice from make, a map ...) is refused;
//   (E2) it does not assign to a field of its receiver / of anything (`x.f = ..`, `x.f[i] = ..`):
//        no per-value cache of encoded bytes.
//
// Third obligation (commands): the argument byte strings handed to the executors must not share
// spare capacity -- executors store them and later grow stored values in place (APPEND), so an
// argument whose capacity reaches into its neighbour overwrites it.  In package resp, for every
// function reachable from a method named ToCommand (the helper Manager.Handle feeds executors with):
//   (C1) every slice expression is a full one whose capacity is clipped to its length:
//        x[i:j:j]  (the same expression as high and max bound);  a two-index slice  x[i:j], x[i:], x[:j]
//        is refused.  Handing out  v.ByteData()  (what the parser allocated for that bulk string
//        alone), copies made with make+copy / append([]byte(nil), ..) and clipped slices are the
//        accepted shapes.
// Outside the obligation (reported as information): deadline calls in other packages, e.g. the
// pub/sub push path memdb.ChanMap.Send, which is the subject of C19.

import (
	"encoding/json"
	"fmt"
	"go/ast"
	"go/parser"
	"go/printer"
	"go/token"
	"os"
	"path/filepath"
	"sort"
	"strings"
)

func init() { subcmds["writecheck"] = cmdWriteCheck }

type wsite struct {
	File    string `json:"file"`
	Func    string `json:"func"`
	Line    int    `json:"line"`
	What    string `json:"what"`
	Guarded bool   `json:"guarded"`
	Why     string `json:"why,omitempty"`
}

type wfacts struct {
	HandleFound        bool    `json:"handle_found"`
	HandleClusterFound bool    `json:"handle_cluster_found"`
	Deadlines          []wsite `json:"deadlines_in_server"`   // Set(Write)Deadline calls in package server
	OtherDeadlines     []wsite `json:"deadlines_elsewhere"`   // information only
	Writes             []wsite `json:"writes"`                // conn.Write calls of the two loops
	Unrecognised       []wsite `json:"unrecognised"`          // uses of conn.Write that are not plain calls
	Shape              string  `json:"shape"`                 // per loop: S1 | S2 | none
	EncoderFuncs       []string `json:"encoder_funcs"`        // functions reachable from ToBytes methods
	EncoderIssues      []wsite  `json:"encoder_issues"`       // violations of (E1)/(E2)
	EncodersOK         bool     `json:"encoders_ok"`
	CommandFuncs       []string `json:"command_funcs"`        // functions reachable from ToCommand methods
	CommandIssues      []wsite  `json:"command_issues"`       // violations of (C1)
	CommandsOK         bool     `json:"commands_ok"`
	WritesOK           bool     `json:"writes_ok"`
	OK                 bool    `json:"ok"`
}

func exprStr(e ast.Expr) string {
	switch x := e.(type) {
	case *ast.Ident:
		return x.Name
	case *ast.SelectorExpr:
		return exprStr(x.X) + "." + x.Sel.Name
	}
	return "?"
}

func isDeadlineCall(c *ast.CallExpr) bool {
	s, ok := c.Fun.(*ast.SelectorExpr)
	return ok && (s.Sel.Name == "SetWriteDeadline" || s.Sel.Name == "SetDeadline")
}

// the name of the net.Conn parameter
func connParam(fn *ast.FuncDecl) string {
	for _, f := range fn.Type.Params.List {
		if exprStr(f.Type) == "net.Conn" && len(f.Names) > 0 {
			return f.Names[0].Name
		}
	}
	return ""
}

func isConnWrite(e ast.Expr, conn string) bool {
	c, ok := e.(*ast.CallExpr)
	if !ok {
		return false
	}
	s, ok := c.Fun.(*ast.SelectorExpr)
	return ok && s.Sel.Name == "Write" && exprStr(s.X) == conn
}

// endsInReturn: the block's last statement is a return
func endsInReturn(b *ast.BlockStmt) bool {
	if b == nil || len(b.List) == 0 {
		return false
	}
	_, ok := b.List[len(b.List)-1].(*ast.ReturnStmt)
	return ok
}

// guardedS2: stmts[i] is `_, err := conn.Write(..)`; is it followed by `if err != nil {..return}`?
func guardedS2(stmts []ast.Stmt, i int, conn string) (bool, string) {
	as, ok := stmts[i].(*ast.AssignStmt)
	if !ok || as.Tok != token.DEFINE || len(as.Lhs) != 2 || len(as.Rhs) != 1 {
		return false, "the result of conn.Write is not bound by `_, err := conn.Write(..)`"
	}
	errName := exprStr(as.Lhs[1])
	if errName == "_" || errName == "?" {
		return false, "the error of conn.Write is discarded"
	}
	for j := i + 1; j < len(stmts); j++ {
		switch s := stmts[j].(type) {
		case *ast.ExprStmt:
			if c, ok := s.X.(*ast.CallExpr); ok && isDeadlineCall(c) {
				continue
			}
			return false, "a statement other than the error test follows the write"
		case *ast.AssignStmt:
			if len(s.Rhs) == 1 {
				if c, ok := s.Rhs[0].(*ast.CallExpr); ok && isDeadlineCall(c) {
					continue
				}
			}
			return false, "a statement other than the error test follows the write"
		case *ast.IfStmt:
			b, ok := s.Cond.(*ast.BinaryExpr)
			if s.Init != nil || !ok || b.Op != token.NEQ || exprStr(b.X) != errName || exprStr(b.Y) != "nil" {
				return false, "the statement after the write is not `if " + errName + " != nil`"
			}
			if !endsInReturn(s.Body) {
				return false, "after a failed write the loop goes on (the `if " + errName + " != nil` body does not end in return): a later reply can be written behind a partial one"
			}
			return true, ""
		default:
			return false, "a statement other than the error test follows the write"
		}
	}
	return false, "no error test follows the write"
}

func cmdWriteCheck(args []string) error {
	if len(args) < 2 {
		return fmt.Errorf("usage: writecheck <repo> <out.json>")
	}
	repo := args[0]
	facts := wfacts{}
	fset := token.NewFileSet()
	type loopFn struct {
		fn   *ast.FuncDecl
		file string
	}
	var loops []loopFn
	// deadlines: package server is the obligation, the other first-party packages are information
	for _, pkg := range []string{"server", "memdb", "resp", "util"} {
		files, _ := filepath.Glob(filepath.Join(repo, pkg, "*.go"))
		for _, path := range files {
			if strings.HasSuffix(path, "_test.go") {
				continue
			}
			f, err := parser.ParseFile(fset, path, nil, 0)
			if err != nil {
				return err
			}
			rel, _ := filepath.Rel(repo, path)
			for _, d := range f.Decls {
				fn, ok := d.(*ast.FuncDecl)
				if !ok || fn.Body == nil {
					continue
				}
				ast.Inspect(fn.Body, func(n ast.Node) bool {
					if c, ok := n.(*ast.CallExpr); ok && isDeadlineCall(c) {
						s := wsite{File: rel, Func: fn.Name.Name, Line: fset.Position(c.Pos()).Line, What: exprStr(c.Fun)}
						if pkg == "server" {
							facts.Deadlines = append(facts.Deadlines, s)
						} else {
							facts.OtherDeadlines = append(facts.OtherDeadlines, s)
						}
					}
					return true
				})
				if pkg == "server" && fn.Recv != nil && (fn.Name.Name == "Handle" || fn.Name.Name == "HandleCluster") {
					loops = append(loops, loopFn{fn, rel})
					if fn.Name.Name == "Handle" {
						facts.HandleFound = true
					} else {
						facts.HandleClusterFound = true
					}
				}
			}
		}
	}
	shapes := map[string]string{}
	for _, l := range loops {
		s1 := true
		for _, dl := range facts.Deadlines {
			if dl.Func == l.fn.Name.Name || (dl.Func != "Handle" && dl.Func != "HandleCluster") {
				s1 = false
			}
		}
		allS2 := true
		nWrites := 0
		conn := connParam(l.fn)
		if conn == "" {
			facts.Unrecognised = append(facts.Unrecognised, wsite{File: l.file, Func: l.fn.Name.Name,
				Line: fset.Position(l.fn.Pos()).Line, What: "no net.Conn parameter"})
			continue
		}
		counted := map[token.Pos]bool{}
		// every block: look for the write statements and their guards
		ast.Inspect(l.fn.Body, func(n ast.Node) bool {
			var stmts []ast.Stmt
			switch b := n.(type) {
			case *ast.BlockStmt:
				stmts = b.List
			case *ast.CaseClause:
				stmts = b.Body
			case *ast.CommClause:
				stmts = b.Body
			default:
				return true
			}
			for i, st := range stmts {
				var call ast.Expr
				switch x := st.(type) {
				case *ast.AssignStmt:
					if len(x.Rhs) == 1 && isConnWrite(x.Rhs[0], conn) {
						call = x.Rhs[0]
					}
				case *ast.ExprStmt:
					if isConnWrite(x.X, conn) {
						call = x.X
					}
				}
				if call == nil {
					continue
				}
				counted[call.Pos()] = true
				g, why := guardedS2(stmts, i, conn)
				w := wsite{File: l.file, Func: l.fn.Name.Name, Line: fset.Position(call.Pos()).Line, What: conn + ".Write", Guarded: g || s1, Why: why}
				if s1 {
					w.Why = ""
				}
				if !g {
					allS2 = false
				}
				nWrites++
				facts.Writes = append(facts.Writes, w)
			}
			return true
		})
		// any other mention of conn.Write (nested in an expression, taken as a value ...)
		ast.Inspect(l.fn.Body, func(n ast.Node) bool {
			if s, ok := n.(*ast.SelectorExpr); ok && s.Sel.Name == "Write" && exprStr(s.X) == conn {
				found := false
				for p := range counted {
					if p == s.Pos() {
						found = true
					}
				}
				if !found {
					facts.Unrecognised = append(facts.Unrecognised, wsite{File: l.file, Func: l.fn.Name.Name,
						Line: fset.Position(s.Pos()).Line, What: conn + ".Write used other than as a statement-level call"})
				}
			}
			return true
		})
		switch {
		case nWrites == 0:
			shapes[l.fn.Name.Name] = "none"
		case s1:
			shapes[l.fn.Name.Name] = "S1"
		case allS2:
			shapes[l.fn.Name.Name] = "S2"
		default:
			shapes[l.fn.Name.Name] = "none"
		}
	}
	facts.Shape = ""
	for _, l := range loops {
		if facts.Shape != "" {
			facts.Shape += ","
		}
		facts.Shape += l.fn.Name.Name + ":" + shapes[l.fn.Name.Name]
	}
	if err := encoderFacts(repo, fset, &facts); err != nil {
		return err
	}
	facts.WritesOK = facts.HandleFound && facts.HandleClusterFound && len(facts.Unrecognised) == 0 && len(facts.Writes) > 0 &&
		shapes["Handle"] != "none" && shapes["HandleCluster"] != "none"
	facts.OK = facts.EncodersOK && facts.CommandsOK && facts.HandleFound && facts.HandleClusterFound && len(facts.Unrecognised) == 0 && len(facts.Writes) > 0 &&
		shapes["Handle"] != "none" && shapes["HandleCluster"] != "none"
	out, _ := json.MarshalIndent(facts, "", " ")
	return os.WriteFile(args[1], out, 0644)
}

// ---------------------------------------------------------------- encoders (E1, E2)

type pkgVar struct {
	file     string
	line     int
	readOnly bool // initialiser is a literal / conversion of a literal
	why      string
}

func literalInit(e ast.Expr) bool {
	switch x := e.(type) {
	case *ast.BasicLit:
		return true
	case *ast.CallExpr: // []byte("...") / string("...")
		if len(x.Args) != 1 {
			return false
		}
		if _, ok := x.Args[0].(*ast.BasicLit); !ok {
			return false
		}
		switch f := x.Fun.(type) {
		case *ast.ArrayType:
			return f.Len == nil && exprStr(f.Elt) == "byte"
		case *ast.Ident:
			return f.Name == "string"
		}
	}
	return false
}

// rootIdent: the identifier at the bottom of x, x[i], x.f, *x
func rootIdent(e ast.Expr) string {
	for {
		switch x := e.(type) {
		case *ast.Ident:
			return x.Name
		case *ast.IndexExpr:
			e = x.X
		case *ast.SliceExpr:
			e = x.X
		case *ast.SelectorExpr:
			e = x.X
		case *ast.StarExpr:
			e = x.X
		case *ast.ParenExpr:
			e = x.X
		default:
			return ""
		}
	}
}

func encoderFacts(repo string, fset *token.FileSet, facts *wfacts) error {
	files, _ := filepath.Glob(filepath.Join(repo, "resp", "*.go"))
	vars := map[string]*pkgVar{}
	funcs := map[string][]*ast.FuncDecl{} // by name (methods of different types merged: conservative)
	funcFile := map[*ast.FuncDecl]string{}
	var parsed []*ast.File
	for _, path := range files {
		if strings.HasSuffix(path, "_test.go") {
			continue
		}
		f, err := parser.ParseFile(fset, path, nil, 0)
		if err != nil {
			return err
		}
		parsed = append(parsed, f)
		rel, _ := filepath.Rel(repo, path)
		for _, d := range f.Decls {
			switch x := d.(type) {
			case *ast.GenDecl:
				if x.Tok != token.VAR {
					continue
				}
				for _, sp := range x.Specs {
					vs := sp.(*ast.ValueSpec)
					for i, n := range vs.Names {
						v := &pkgVar{file: rel, line: fset.Position(n.Pos()).Line}
						if i < len(vs.Values) && literalInit(vs.Values[i]) {
							v.readOnly = true
						} else {
							v.why = "not initialised by a literal"
						}
						vars[n.Name] = v
					}
				}
			case *ast.FuncDecl:
				if x.Body != nil {
					funcs[x.Name.Name] = append(funcs[x.Name.Name], x)
					funcFile[x] = rel
				}
			}
		}
	}
	// a variable that is written anywhere in the package is not a constant
	spoil := func(name, why string) {
		if v, ok := vars[name]; ok && v.readOnly {
			v.readOnly = false
			v.why = why
		}
	}
	for _, f := range parsed {
		ast.Inspect(f, func(n ast.Node) bool {
			switch x := n.(type) {
			case *ast.AssignStmt:
				for _, l := range x.Lhs {
					spoil(rootIdent(l), "assigned to")
				}
			case *ast.IncDecStmt:
				spoil(rootIdent(x.X), "assigned to")
			case *ast.UnaryExpr:
				if x.Op == token.AND {
					spoil(rootIdent(x.X), "address taken")
				}
			case *ast.CallExpr:
				if id, ok := x.Fun.(*ast.Ident); ok && (id.Name == "append" || id.Name == "copy") && len(x.Args) > 0 {
					spoil(rootIdent(x.Args[0]), "appended / copied to")
				}
				if sel, ok := x.Fun.(*ast.SelectorExpr); ok {
					if id, ok := sel.X.(*ast.Ident); ok {
						spoil(id.Name, "used as the receiver of a method call")
					}
				}
			}
			return true
		})
	}
	// functions reachable from the ToBytes methods
	reach := map[*ast.FuncDecl]bool{}
	var queue []*ast.FuncDecl
	for _, fn := range funcs["ToBytes"] {
		if fn.Recv != nil {
			reach[fn] = true
			queue = append(queue, fn)
		}
	}
	for len(queue) > 0 {
		fn := queue[0]
		queue = queue[1:]
		ast.Inspect(fn.Body, func(n ast.Node) bool {
			c, ok := n.(*ast.CallExpr)
			if !ok {
				return true
			}
			name := ""
			switch f := c.Fun.(type) {
			case *ast.Ident:
				name = f.Name
			case *ast.SelectorExpr:
				name = f.Sel.Name
			}
			for _, g := range funcs[name] {
				if !reach[g] {
					reach[g] = true
					queue = append(queue, g)
				}
			}
			return true
		})
	}
	seen := map[string]bool{}
	for fn := range reach {
		label := fn.Name.Name
		if fn.Recv != nil && len(fn.Recv.List) > 0 {
			label = strings.TrimPrefix(exprStrStar(fn.Recv.List[0].Type), "*") + "." + label
		}
		facts.EncoderFuncs = append(facts.EncoderFuncs, label)
		// local names shadow package-level ones: parameters, receiver, := definitions
		local := map[string]bool{}
		if fn.Recv != nil {
			for _, f := range fn.Recv.List {
				for _, n := range f.Names {
					local[n.Name] = true
				}
			}
		}
		for _, f := range fn.Type.Params.List {
			for _, n := range f.Names {
				local[n.Name] = true
			}
		}
		ast.Inspect(fn.Body, func(n ast.Node) bool {
			switch x := n.(type) {
			case *ast.AssignStmt:
				if x.Tok == token.DEFINE {
					for _, l := range x.Lhs {
						if id, ok := l.(*ast.Ident); ok {
							local[id.Name] = true
						}
					}
				}
			case *ast.RangeStmt:
				if x.Tok == token.DEFINE {
					for _, l := range []ast.Expr{x.Key, x.Value} {
						if id, ok := l.(*ast.Ident); ok {
							local[id.Name] = true
						}
					}
				}
			case *ast.ValueSpec:
				for _, id := range x.Names {
					local[id.Name] = true
				}
			}
			return true
		})
		ast.Inspect(fn.Body, func(n ast.Node) bool {
			switch x := n.(type) {
			case *ast.SelectorExpr:
				// only the root of a selector can be a package-level variable; the field name is not
				if id, ok := x.X.(*ast.Ident); ok {
					if v, isVar := vars[id.Name]; isVar && !local[id.Name] && !v.readOnly {
						key := label + "/" + id.Name
						if !seen[key] {
							seen[key] = true
							facts.EncoderIssues = append(facts.EncoderIssues, wsite{File: funcFile[fn], Func: label, Line: fset.Position(id.Pos()).Line,
								What: "package-level variable " + id.Name + " (declared " + v.file + ":" + fmt.Sprint(v.line) + ")", Why: "(E1) " + v.why + ": encoded bytes may live in memory shared between replies"})
						}
					}
				}
				return false
			case *ast.Ident:
				if v, isVar := vars[x.Name]; isVar && !local[x.Name] && !v.readOnly {
					key := label + "/" + x.Name
					if !seen[key] {
						seen[key] = true
						facts.EncoderIssues = append(facts.EncoderIssues, wsite{File: funcFile[fn], Func: label, Line: fset.Position(x.Pos()).Line,
							What: "package-level variable " + x.Name + " (declared " + v.file + ":" + fmt.Sprint(v.line) + ")", Why: "(E1) " + v.why + ": encoded bytes may live in memory shared between replies"})
					}
				}
			case *ast.AssignStmt:
				for _, l := range x.Lhs {
					if _, isSel := stripIndex(l).(*ast.SelectorExpr); isSel {
						facts.EncoderIssues = append(facts.EncoderIssues, wsite{File: funcFile[fn], Func: label, Line: fset.Position(l.Pos()).Line,
							What: "assignment to " + exprStr(stripIndex(l)), Why: "(E2) an encoder stores into a field: encoded bytes may be retained after it returns"})
					}
				}
			}
			return true
		})
	}
	sort.Strings(facts.EncoderFuncs)
	facts.EncodersOK = len(funcs["ToBytes"]) > 0 && len(facts.EncoderIssues) == 0

	// (C1) functions reachable from the ToCommand methods
	creach := map[*ast.FuncDecl]bool{}
	var cq []*ast.FuncDecl
	for _, fn := range funcs["ToCommand"] {
		if fn.Recv != nil {
			creach[fn] = true
			cq = append(cq, fn)
		}
	}
	for len(cq) > 0 {
		fn := cq[0]
		cq = cq[1:]
		ast.Inspect(fn.Body, func(n ast.Node) bool {
			c, ok := n.(*ast.CallExpr)
			if !ok {
				return true
			}
			name := ""
			switch f := c.Fun.(type) {
			case *ast.Ident:
				name = f.Name
			case *ast.SelectorExpr:
				name = f.Sel.Name
			}
			for _, g := range funcs[name] {
				if !creach[g] {
					creach[g] = true
					cq = append(cq, g)
				}
			}
			return true
		})
	}
	for fn := range creach {
		label := fn.Name.Name
		if fn.Recv != nil && len(fn.Recv.List) > 0 {
			label = strings.TrimPrefix(exprStrStar(fn.Recv.List[0].Type), "*") + "." + label
		}
		facts.CommandFuncs = append(facts.CommandFuncs, label)
		ast.Inspect(fn.Body, func(n ast.Node) bool {
			se, ok := n.(*ast.SliceExpr)
			if !ok {
				return true
			}
			clipped := se.Slice3 && se.High != nil && se.Max != nil && render(fset, se.High) == render(fset, se.Max)
			if !clipped {
				facts.CommandIssues = append(facts.CommandIssues, wsite{File: funcFile[fn], Func: label, Line: fset.Position(se.Pos()).Line,
					What: "slice expression " + render(fset, se), Why: "(C1) not of the form x[i:j:j]: the argument's spare capacity may be the memory of the arguments after it"})
			}
			return true
		})
	}
	sort.Strings(facts.CommandFuncs)
	facts.CommandsOK = len(funcs["ToCommand"]) > 0 && len(facts.CommandIssues) == 0
	return nil
}

func render(fset *token.FileSet, n ast.Node) string {
	var b strings.Builder
	printer.Fprint(&b, fset, n)
	return b.String()
}

func stripIndex(e ast.Expr) ast.Expr {
	for {
		switch x := e.(type) {
		case *ast.IndexExpr:
			e = x.X
		case *ast.ParenExpr:
			e = x.X
		default:
			return e
		}
	}
}

func exprStrStar(e ast.Expr) string {
	if s, ok := e.(*ast.StarExpr); ok {
		return "*" + exprStr(s.X)
	}
	return exprStr(e)
}
