package main

// writecheck: a structural obligation on the source (go/ast; conservative: a shape that is not
// recognised counts as a failure), the premise `write_atomic_or_close` of coq/Resp/ReplyLoop.v:
//
//   in the connection loops  (*Manager).Handle  and  (*Manager).HandleCluster  of package server
//   a reply write is atomic, or the connection ends at the first write that is not.
//
// Accepted shapes:
//   (S1) no write deadline: no call  X.SetWriteDeadline(..) / X.SetDeadline(..)  in the loop function
//        itself nor in any other function of package server except the other loop (a helper may
//        be called from either).  A conn.Write without a deadline returns an error only when the
//        connection is dead, and then every later write fails with nothing written;
//   (S2) deadlines are set, and EVERY  conn.Write  of that loop has the form
//            n_or_blank, err := conn.Write(..)        (err bound to a fresh variable)
//        followed in the same block -- only calls  conn.Set*Deadline(..)  may stand between --
//        by   if err != nil { ... return }   whose body ends in a return statement (the deferred
//        conn.Close() then runs): no later write on that connection is reachable after a failed
//        or short write (net.Conn.Write returns a non-nil error whenever n < len(b)).
// Also required: both functions exist, each writes to its `conn` parameter only through direct
// calls conn.Write(..) (an assignment of conn.Write to a variable, or passing conn.Write as a
// value, is not recognised and fails).
// Outside the obligation (reported as information): deadline calls in other packages, e.g. the
// pub/sub push path memdb.ChanMap.Send, which is the subject of C19.

import (
	"encoding/json"
	"fmt"
	"go/ast"
	"go/parser"
	"go/token"
	"os"
	"path/filepath"
	"strings"
)

func init() { subcmds["writecheck"] = cmdWriteCheck }

type wsite struct {
	File    string `json:"file"`
	Func    string `json:"func"`
	Line    int    `json:"line"`
	What    string `json:"what"`
	Guarded bool   `json:"guarded"`
	Why     string `json:"why,omitempty"`
}

type wfacts struct {
	HandleFound        bool    `json:"handle_found"`
	HandleClusterFound bool    `json:"handle_cluster_found"`
	Deadlines          []wsite `json:"deadlines_in_server"`   // Set(Write)Deadline calls in package server
	OtherDeadlines     []wsite `json:"deadlines_elsewhere"`   // information only
	Writes             []wsite `json:"writes"`                // conn.Write calls of the two loops
	Unrecognised       []wsite `json:"unrecognised"`          // uses of conn.Write that are not plain calls
	Shape              string  `json:"shape"`                 // per loop: S1 | S2 | none
	OK                 bool    `json:"ok"`
}

func exprStr(e ast.Expr) string {
	switch x := e.(type) {
	case *ast.Ident:
		return x.Name
	case *ast.SelectorExpr:
		return exprStr(x.X) + "." + x.Sel.Name
	}
	return "?"
}

func isDeadlineCall(c *ast.CallExpr) bool {
	s, ok := c.Fun.(*ast.SelectorExpr)
	return ok && (s.Sel.Name == "SetWriteDeadline" || s.Sel.Name == "SetDeadline")
}

// the name of the net.Conn parameter
func connParam(fn *ast.FuncDecl) string {
	for _, f := range fn.Type.Params.List {
		if exprStr(f.Type) == "net.Conn" && len(f.Names) > 0 {
			return f.Names[0].Name
		}
	}
	return ""
}

func isConnWrite(e ast.Expr, conn string) bool {
	c, ok := e.(*ast.CallExpr)
	if !ok {
		return false
	}
	s, ok := c.Fun.(*ast.SelectorExpr)
	return ok && s.Sel.Name == "Write" && exprStr(s.X) == conn
}

// endsInReturn: the block's last statement is a return
func endsInReturn(b *ast.BlockStmt) bool {
	if b == nil || len(b.List) == 0 {
		return false
	}
	_, ok := b.List[len(b.List)-1].(*ast.ReturnStmt)
	return ok
}

// guardedS2: stmts[i] is `_, err := conn.Write(..)`; is it followed by `if err != nil {..return}`?
func guardedS2(stmts []ast.Stmt, i int, conn string) (bool, string) {
	as, ok := stmts[i].(*ast.AssignStmt)
	if !ok || as.Tok != token.DEFINE || len(as.Lhs) != 2 || len(as.Rhs) != 1 {
		return false, "the result of conn.Write is not bound by `_, err := conn.Write(..)`"
	}
	errName := exprStr(as.Lhs[1])
	if errName == "_" || errName == "?" {
		return false, "the error of conn.Write is discarded"
	}
	for j := i + 1; j < len(stmts); j++ {
		switch s := stmts[j].(type) {
		case *ast.ExprStmt:
			if c, ok := s.X.(*ast.CallExpr); ok && isDeadlineCall(c) {
				continue
			}
			return false, "a statement other than the error test follows the write"
		case *ast.AssignStmt:
			if len(s.Rhs) == 1 {
				if c, ok := s.Rhs[0].(*ast.CallExpr); ok && isDeadlineCall(c) {
					continue
				}
			}
			return false, "a statement other than the error test follows the write"
		case *ast.IfStmt:
			b, ok := s.Cond.(*ast.BinaryExpr)
			if s.Init != nil || !ok || b.Op != token.NEQ || exprStr(b.X) != errName || exprStr(b.Y) != "nil" {
				return false, "the statement after the write is not `if " + errName + " != nil`"
			}
			if !endsInReturn(s.Body) {
				return false, "after a failed write the loop goes on (the `if " + errName + " != nil` body does not end in return): a later reply can be written behind a partial one"
			}
			return true, ""
		default:
			return false, "a statement other than the error test follows the write"
		}
	}
	return false, "no error test follows the write"
}

func cmdWriteCheck(args []string) error {
	if len(args) < 2 {
		return fmt.Errorf("usage: writecheck <repo> <out.json>")
	}
	repo := args[0]
	facts := wfacts{}
	fset := token.NewFileSet()
	type loopFn struct {
		fn   *ast.FuncDecl
		file string
	}
	var loops []loopFn
	// deadlines: package server is the obligation, the other first-party packages are information
	for _, pkg := range []string{"server", "memdb", "resp", "util"} {
		files, _ := filepath.Glob(filepath.Join(repo, pkg, "*.go"))
		for _, path := range files {
			if strings.HasSuffix(path, "_test.go") {
				continue
			}
			f, err := parser.ParseFile(fset, path, nil, 0)
			if err != nil {
				return err
			}
			rel, _ := filepath.Rel(repo, path)
			for _, d := range f.Decls {
				fn, ok := d.(*ast.FuncDecl)
				if !ok || fn.Body == nil {
					continue
				}
				ast.Inspect(fn.Body, func(n ast.Node) bool {
					if c, ok := n.(*ast.CallExpr); ok && isDeadlineCall(c) {
						s := wsite{File: rel, Func: fn.Name.Name, Line: fset.Position(c.Pos()).Line, What: exprStr(c.Fun)}
						if pkg == "server" {
							facts.Deadlines = append(facts.Deadlines, s)
						} else {
							facts.OtherDeadlines = append(facts.OtherDeadlines, s)
						}
					}
					return true
				})
				if pkg == "server" && fn.Recv != nil && (fn.Name.Name == "Handle" || fn.Name.Name == "HandleCluster") {
					loops = append(loops, loopFn{fn, rel})
					if fn.Name.Name == "Handle" {
						facts.HandleFound = true
					} else {
						facts.HandleClusterFound = true
					}
				}
			}
		}
	}
	shapes := map[string]string{}
	for _, l := range loops {
		s1 := true
		for _, dl := range facts.Deadlines {
			if dl.Func == l.fn.Name.Name || (dl.Func != "Handle" && dl.Func != "HandleCluster") {
				s1 = false
			}
		}
		allS2 := true
		nWrites := 0
		conn := connParam(l.fn)
		if conn == "" {
			facts.Unrecognised = append(facts.Unrecognised, wsite{File: l.file, Func: l.fn.Name.Name,
				Line: fset.Position(l.fn.Pos()).Line, What: "no net.Conn parameter"})
			continue
		}
		counted := map[token.Pos]bool{}
		// every block: look for the write statements and their guards
		ast.Inspect(l.fn.Body, func(n ast.Node) bool {
			var stmts []ast.Stmt
			switch b := n.(type) {
			case *ast.BlockStmt:
				stmts = b.List
			case *ast.CaseClause:
				stmts = b.Body
			case *ast.CommClause:
				stmts = b.Body
			default:
				return true
			}
			for i, st := range stmts {
				var call ast.Expr
				switch x := st.(type) {
				case *ast.AssignStmt:
					if len(x.Rhs) == 1 && isConnWrite(x.Rhs[0], conn) {
						call = x.Rhs[0]
					}
				case *ast.ExprStmt:
					if isConnWrite(x.X, conn) {
						call = x.X
					}
				}
				if call == nil {
					continue
				}
				counted[call.Pos()] = true
				g, why := guardedS2(stmts, i, conn)
				w := wsite{File: l.file, Func: l.fn.Name.Name, Line: fset.Position(call.Pos()).Line, What: conn + ".Write", Guarded: g || s1, Why: why}
				if s1 {
					w.Why = ""
				}
				if !g {
					allS2 = false
				}
				nWrites++
				facts.Writes = append(facts.Writes, w)
			}
			return true
		})
		// any other mention of conn.Write (nested in an expression, taken as a value ...)
		ast.Inspect(l.fn.Body, func(n ast.Node) bool {
			if s, ok := n.(*ast.SelectorExpr); ok && s.Sel.Name == "Write" && exprStr(s.X) == conn {
				found := false
				for p := range counted {
					if p == s.Pos() {
						found = true
					}
				}
				if !found {
					facts.Unrecognised = append(facts.Unrecognised, wsite{File: l.file, Func: l.fn.Name.Name,
						Line: fset.Position(s.Pos()).Line, What: conn + ".Write used other than as a statement-level call"})
				}
			}
			return true
		})
		switch {
		case nWrites == 0:
			shapes[l.fn.Name.Name] = "none"
		case s1:
			shapes[l.fn.Name.Name] = "S1"
		case allS2:
			shapes[l.fn.Name.Name] = "S2"
		default:
			shapes[l.fn.Name.Name] = "none"
		}
	}
	facts.Shape = ""
	for _, l := range loops {
		if facts.Shape != "" {
			facts.Shape += ","
		}
		facts.Shape += l.fn.Name.Name + ":" + shapes[l.fn.Name.Name]
	}
	facts.OK = facts.HandleFound && facts.HandleClusterFound && len(facts.Unrecognised) == 0 && len(facts.Writes) > 0 &&
		shapes["Handle"] != "none" && shapes["HandleCluster"] != "none"
	out, _ := json.MarshalIndent(facts, "", " ")
	return os.WriteFile(args[1], out, 0644)
}
