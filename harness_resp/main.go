// verifharness_resp: runs resp.ParseStream and the built server (both from /repo's working
// tree) on byte streams in prescribed read chunkings and writes what it observed, for
// comparison with the extracted Coq model (coq/Resp).
package main

import (
	"fmt"
	"os"
)

type subcmd func(args []string) error

var subcmds = map[string]subcmd{}

func main() {
	if len(os.Args) < 2 {
		fmt.Fprintln(os.Stderr, "usage: harness_resp <gen|run|child|serve|tcp|cmdtable> args...")
		os.Exit(2)
	}
	f, ok := subcmds[os.Args[1]]
	if !ok {
		fmt.Fprintln(os.Stderr, "unknown subcommand", os.Args[1])
		os.Exit(2)
	}
	if err := f(os.Args[2:]); err != nil {
		fmt.Fprintln(os.Stderr, "harness_resp error:", err)
		os.Exit(3)
	}
}
