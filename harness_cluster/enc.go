package main

import (
	"bufio"
	"encoding/json"
	"fmt"
	"os"
	"strconv"
	"strings"

	"github.com/innovationb1ue/RedisGO/raftexample"
	"go.etcd.io/etcd/raft/v3/raftpb"
)

func init() {
	subcmds["encrun"] = encRunCmd
	subcmds["applyseq"] = applySeqCmd
}

// the encoding of the pinned commit, re-stated with the standard library only (the code itself is
// gone after the fix): join, JSON string round trip, split. Ties Cluster.ClusterEnc.pinned_roundtrip.
func pinnedRoundtrip(args [][]byte) []string {
	strs := make([]string, 0, len(args))
	for _, a := range args {
		strs = append(strs, string(a))
	}
	b, err := json.Marshal(struct {
		Data string `json:"Data"`
		ID   string `json:"ID"`
	}{strings.Join(strs, " "), "x"})
	if err != nil {
		panic(err)
	}
	var back struct {
		Data string `json:"Data"`
		ID   string `json:"ID"`
	}
	if err := json.Unmarshal(b, &back); err != nil {
		panic(err)
	}
	return strings.Split(back.Data, " ")
}

// one entry through the real decode path: publishEntries -> commitC
func decodeViaPublish(payload []byte) *raftexample.RaftProposal {
	rc, commitC := raftexample.VerifApplyNode(0)
	res := make(chan *raftexample.RaftProposal, 1)
	go func() {
		c := <-commitC
		if c == nil || len(c.Data) != 1 {
			res <- nil
		} else {
			res <- c.Data[0]
		}
		if c != nil {
			close(c.ApplyDoneC)
		}
	}()
	ents := []raftpb.Entry{{Index: 1, Term: 1, Type: raftpb.EntryNormal, Data: payload}}
	rc.VerifPublishEntries(rc.VerifEntriesToApply(ents))
	return <-res
}

// encrun <cases> <out>: lines "A <idhex> <arghex>*" ->
// "<payloadhex> | <idhex> <arghex>* | <pinned arghex>*"
func encRunCmd(args []string) error {
	if len(args) != 2 {
		return fmt.Errorf("encrun <cases> <out>")
	}
	f, err := os.Open(args[0])
	if err != nil {
		return err
	}
	defer f.Close()
	of, err := os.Create(args[1])
	if err != nil {
		return err
	}
	defer of.Close()
	w := bufio.NewWriterSize(of, 1<<20)
	defer w.Flush()
	sc := bufio.NewScanner(f)
	sc.Buffer(make([]byte, 1<<20), 1<<28)
	for sc.Scan() {
		fs := strings.Fields(sc.Text())
		if len(fs) < 2 || fs[0] != "A" {
			continue
		}
		id := string(unhx(fs[1]))
		// the command as resp.ArrayData.ToCommand builds it: a non-nil slice of non-nil byte slices
		cmd := make([][]byte, 0, len(fs)-2)
		for _, h := range fs[2:] {
			cmd = append(cmd, unhx(h))
		}
		p := &raftexample.RaftProposal{Data: cmd, ID: id}
		payload := p.ToBytes()
		dec := "NONE"
		if back := decodeViaPublish(payload); back != nil {
			parts := []string{hx([]byte(back.ID))}
			for _, a := range back.Data {
				parts = append(parts, hx(a))
			}
			dec = strings.Join(parts, " ")
		}
		pin := []string{}
		for _, s := range pinnedRoundtrip(cmd) {
			pin = append(pin, hx([]byte(s)))
		}
		fmt.Fprintf(w, "%s | %s | %s\n", hx(payload), dec, strings.Join(pin, " "))
	}
	return nil
}

// applyseq <cases> <out>: C07 (D). Case file as for `clusterrun apply`:
//
//	CASE <name> <base> <kinds over c/e>      W <lo> <len>      END
//
// Every W is one Ready: the window of the log goes through the real entriesToApply and
// publishEntries of a node whose appliedIndex starts at base; a consumer goroutine plays
// handleClusterCommits. Output per W: "B <n entries counted> <applied after> <ids published>".
// (Conf-change entries need a running raft.Node and are not generated.)
func applySeqCmd(args []string) error {
	if len(args) != 2 {
		return fmt.Errorf("applyseq <cases> <out>")
	}
	f, err := os.Open(args[0])
	if err != nil {
		return err
	}
	defer f.Close()
	of, err := os.Create(args[1])
	if err != nil {
		return err
	}
	defer of.Close()
	w := bufio.NewWriterSize(of, 1<<20)
	defer w.Flush()
	sc := bufio.NewScanner(f)
	sc.Buffer(make([]byte, 1<<20), 1<<28)
	var rc *raftexample.RaftNode
	var commitC <-chan *raftexample.RaftCommit
	var log []raftpb.Entry
	for sc.Scan() {
		fs := strings.Fields(sc.Text())
		if len(fs) == 0 {
			continue
		}
		switch fs[0] {
		case "CASE":
			base, _ := strconv.ParseUint(fs[2], 10, 64)
			kinds := ""
			if len(fs) > 3 {
				kinds = fs[3]
			}
			log = log[:0]
			for i, ch := range kinds {
				idx := base + 1 + uint64(i)
				e := raftpb.Entry{Index: idx, Term: 1, Type: raftpb.EntryNormal}
				if ch == 'c' {
					e.Data = (&raftexample.RaftProposal{Data: [][]byte{}, ID: strconv.FormatUint(idx, 10)}).ToBytes()
				}
				log = append(log, e)
			}
			rc, commitC = raftexample.VerifApplyNode(base)
			fmt.Fprintf(w, "CASE %s\n", fs[1])
		case "W":
			lo, _ := strconv.Atoi(fs[1])
			n, _ := strconv.Atoi(fs[2])
			if lo > len(log) {
				lo = len(log)
			}
			hi := lo + n
			if hi > len(log) {
				hi = len(log)
			}
			ents := log[lo:hi]
			ids := []string{}
			got := make(chan struct{})
			stop := make(chan struct{})
			go func() {
				select {
				case c := <-commitC:
					for _, p := range c.Data {
						ids = append(ids, p.ID)
					}
					close(c.ApplyDoneC)
				case <-stop:
				}
				close(got)
			}()
			nents := rc.VerifEntriesToApply(ents)
			done, ok := rc.VerifPublishEntries(nents)
			if done != nil {
				<-done
			}
			close(stop)
			<-got
			if !ok {
				fmt.Fprintf(w, "B NOTOK\n")
				continue
			}
			fmt.Fprintf(w, "B %d %d %s\n", len(nents), rc.VerifAppliedIndex(), strings.Join(ids, ","))
			w.Flush() // entriesToApply ends the process (log.Fatalf) when it is handed a gap
		case "END":
			fmt.Fprintf(w, "END\n")
		}
	}
	return nil
}
