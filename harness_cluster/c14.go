package main

import (
	"bufio"
	"bytes"
	"context"
	"encoding/hex"
	"encoding/json"
	"fmt"
	"io"
	"log"
	"net"
	"os"
	"sort"
	"strconv"
	"strings"
	"sync"
	"time"

	"github.com/innovationb1ue/RedisGO/config"
	"github.com/innovationb1ue/RedisGO/logger"
	"github.com/innovationb1ue/RedisGO/memdb"
	"github.com/innovationb1ue/RedisGO/resp"
	"github.com/innovationb1ue/RedisGO/server"
)

func init() { subcmds["c14run"] = c14RunCmd }

var registered = false

func setupServer(dbs int, scratch string) *config.Config {
	cfg := &config.Config{
		Host: "127.0.0.1", Port: 0, LogDir: scratch, LogLevel: "panic",
		ShardNum: 16, ChanBufferSize: 10, Databases: dbs,
	}
	config.Configures = cfg
	if !registered {
		if err := logger.SetUp(cfg); err != nil {
			panic(err)
		}
		logger.Disable()
		log.SetOutput(io.Discard)
		memdb.RegisterKeyCommands()
		memdb.RegisterStringCommands()
		memdb.RegisterListCommands()
		memdb.RegisterSetCommands()
		memdb.RegisterHashCommands()
		memdb.RegisterPubSubCommands()
		memdb.RegisterSortedSetCommands()
		memdb.RegisterStreamCommands()
		memdb.RegisterRaftCommand()
		registered = true
	}
	return cfg
}

func hx(b []byte) string {
	if len(b) == 0 {
		return "-"
	}
	return hex.EncodeToString(b)
}

func unhx(s string) []byte {
	if s == "-" {
		return []byte{}
	}
	b, err := hex.DecodeString(s)
	if err != nil {
		panic("bad hex " + s)
	}
	return b
}

func hasCRLF(s []byte) bool {
	return bytes.IndexByte(s, '\r') >= 0 || bytes.IndexByte(s, '\n') >= 0
}

// ---- canonical reply text from the bytes on the wire (same text as harness/mem.go derives
// from the RedisData value: +hex | -W | -E | :n | $hex | $nil | *[a b c] | *nil, "!" when a
// line-framed payload contains CR or LF). wire is exactly one reply as written by one Write.

func parseNested(b []byte) (string, []byte, bool) {
	i := bytes.Index(b, []byte("\r\n"))
	if i < 1 {
		return "", nil, false
	}
	line, rest := b[1:i], b[i+2:]
	switch b[0] {
	case '+':
		return "+" + hx(line), rest, true
	case '-':
		if bytes.HasPrefix(line, []byte("WRONGTYPE")) {
			return "-W", rest, true
		}
		return "-E", rest, true
	case ':':
		return ":" + string(line), rest, true
	case '$':
		n, err := strconv.Atoi(string(line))
		if err != nil {
			return "", nil, false
		}
		if n < 0 {
			return "$nil", rest, true
		}
		if len(rest) < n+2 || rest[n] != '\r' || rest[n+1] != '\n' {
			return "", nil, false
		}
		return "$" + hx(rest[:n]), rest[n+2:], true
	case '*':
		n, err := strconv.Atoi(string(line))
		if err != nil {
			return "", nil, false
		}
		if n < 0 {
			return "*nil", rest, true
		}
		parts := make([]string, 0, n)
		for k := 0; k < n; k++ {
			var p string
			var ok bool
			p, rest, ok = parseNested(rest)
			if !ok {
				return "", nil, false
			}
			parts = append(parts, p)
		}
		return "*[" + strings.Join(parts, " ") + "]", rest, true
	}
	return "", nil, false
}

func canonFromWire(wire []byte) string {
	if len(wire) >= 3 && (wire[0] == '+' || wire[0] == '-') && bytes.HasSuffix(wire, []byte("\r\n")) {
		data := wire[1 : len(wire)-2]
		bang := ""
		if hasCRLF(data) {
			bang = "!"
		}
		if wire[0] == '+' {
			return "+" + hx(data) + bang
		}
		if bytes.HasPrefix(data, []byte("WRONGTYPE")) {
			return "-W" + bang
		}
		return "-E" + bang
	}
	s, rest, ok := parseNested(wire)
	if !ok || len(rest) != 0 {
		return "!FRAMING"
	}
	return s
}

var unorderedFlat = map[string]bool{"smembers": true, "sunion": true, "sinter": true, "sdiff": true,
	"hkeys": true, "hvals": true, "keys": true, "spop": true, "srandmember": true}
var unorderedPairs = map[string]bool{"hgetall": true}

func splitTop(s string) []string {
	res := []string{}
	depth := 0
	cur := strings.Builder{}
	for i := 0; i < len(s); i++ {
		c := s[i]
		if c == '[' {
			depth++
		} else if c == ']' {
			depth--
		}
		if c == ' ' && depth == 0 {
			res = append(res, cur.String())
			cur.Reset()
			continue
		}
		cur.WriteByte(c)
	}
	if cur.Len() > 0 {
		res = append(res, cur.String())
	}
	return res
}

func canonForCmd(name string, canon string) string {
	if !strings.HasPrefix(canon, "*[") {
		return canon
	}
	inner := canon[2 : len(canon)-1]
	if unorderedFlat[name] {
		parts := splitTop(inner)
		sort.Strings(parts)
		return "*[" + strings.Join(parts, " ") + "]"
	}
	if unorderedPairs[name] {
		parts := splitTop(inner)
		if len(parts)%2 != 0 {
			return canon
		}
		pairs := make([]string, 0, len(parts)/2)
		for i := 0; i+1 < len(parts); i += 2 {
			pairs = append(pairs, parts[i]+" "+parts[i+1])
		}
		sort.Strings(pairs)
		return "*[" + strings.Join(pairs, " ") + "]"
	}
	return canon
}

// one node under test: either the standalone path or the looped-back cluster path
type node struct {
	mgr     *server.Manager
	cluster bool
	cli     net.Conn
	stop    func()
	mu      sync.Mutex
	entries [][]byte
	buf     []byte
	dead    bool
	// clusterpar: several connections, proposals kept pending and committed as one batch
	par    bool
	clis   []net.Conn
	roundC chan<- int
	// clusterhold: as clusterpar, the commit of a round held back for [hold]
	heldC   chan<- server.VerifRound
	hold    time.Duration
	slow    bool            // clusterhold: clients read only after the held commit was released
	elapsed []time.Duration // per command of the last round: from sending it to having its reply
	// clusternodes: two nodes sharing one log; connection c talks to node c%2
	mgr2 *server.Manager
}

const parConns = 4

func newNode(cfg *config.Config, cluster bool, par bool, held bool, nodes bool) *node {
	n := &node{mgr: server.NewManager(cfg), cluster: cluster || par, par: par}
	tap := func(b []byte) {
		n.mu.Lock()
		n.entries = append(n.entries, append([]byte{}, b...))
		n.mu.Unlock()
	}
	if nodes {
		n.mgr2 = server.NewManager(cfg)
		var cs [][]net.Conn
		cs, n.roundC, n.stop = server.VerifClusterLoopbackNodes([]*server.Manager{n.mgr, n.mgr2}, parConns/2, tap)
		n.clis = make([]net.Conn, parConns)
		for c := 0; c < parConns; c++ {
			n.clis[c] = cs[c%2][c/2]
		}
		return n
	}
	if held {
		n.clis, n.heldC, n.stop = server.VerifClusterLoopbackHeld(n.mgr, parConns, tap)
		return n
	}
	if par {
		n.clis, n.roundC, n.stop = server.VerifClusterLoopbackMulti(n.mgr, parConns, tap)
		return n
	}
	if cluster {
		n.cli, n.stop = server.VerifClusterLoopback(n.mgr, func(b []byte) {
			n.mu.Lock()
			n.entries = append(n.entries, append([]byte{}, b...))
			n.mu.Unlock()
		})
		n.buf = make([]byte, 1<<24)
	}
	return n
}

func (n *node) close() {
	if n.stop != nil {
		n.stop()
	}
}

func respRequest(cmd [][]byte) []byte {
	var b bytes.Buffer
	fmt.Fprintf(&b, "*%d\r\n", len(cmd))
	for _, a := range cmd {
		fmt.Fprintf(&b, "$%d\r\n", len(a))
		b.Write(a)
		b.WriteString("\r\n")
	}
	return b.Bytes()
}

// exec returns the reply bytes as a client would receive them. status: "" ok, "!PANIC" when the
// standalone executor panicked (recovered here; the server itself would die), "!HANG" when the
// step did not finish within 60 s of (virtual) time -- an executor that returned without
// releasing a lock, a lost reply. After a hang the node is unusable.
func (n *node) exec(cmd [][]byte) (wire []byte, status string) {
	type result struct {
		wire   []byte
		status string
	}
	done := make(chan result, 1)
	go func() {
		if !n.cluster {
			defer func() {
				if e := recover(); e != nil {
					if os.Getenv("VERIF_DEBUG") != "" {
						fmt.Fprintln(os.Stderr, "panic:", e)
					}
					done <- result{nil, "!PANIC"}
				}
			}()
			// the connection loop of server.Handle: nil result -> "unknown error"
			done <- result{server.VerifReplyBytes(n.mgr.ExecCommand(context.Background(), cmd, nil)), ""}
			return
		}
		if _, err := n.cli.Write(respRequest(cmd)); err != nil {
			done <- result{[]byte("!WRITE " + err.Error()), ""}
			return
		}
		// net.Pipe: one Read receives one whole Write of the peer (the buffer is larger than any reply)
		k, err := n.cli.Read(n.buf)
		if err != nil {
			done <- result{[]byte("!READ " + err.Error()), ""}
			return
		}
		done <- result{append([]byte{}, n.buf[:k]...), ""}
	}()
	select {
	case r := <-done:
		return r.wire, r.status
	case <-time.After(60 * time.Second):
		n.dead = true
		return nil, "!HANG"
	}
}

type parCmd struct {
	conn int
	cmd  [][]byte
	hex  []string
	step int
}

// execRound sends one command on each of several connections, lets the loop-back take all the
// proposals before any of them is committed, then collects the replies.
func (n *node) execRound(round []parCmd) (wires [][]byte, status []string) {
	wires = make([][]byte, len(round))
	status = make([]string, len(round))
	type result struct {
		i    int
		wire []byte
	}
	done := make(chan result, len(round))
	n.elapsed = make([]time.Duration, len(round))
	// slow readers: the clients read their replies only after the held commit has been released
	release := make(chan struct{})
	slow := n.slow && n.heldC != nil
	if !slow {
		close(release)
	}
	for i, pc := range round {
		go func(i int, pc parCmd) {
			cli := n.clis[pc.conn]
			t0 := time.Now()
			defer func() { n.elapsed[i] = time.Since(t0) }()
			if _, err := cli.Write(respRequest(pc.cmd)); err != nil {
				done <- result{i, []byte("!WRITE " + err.Error())}
				return
			}
			<-release
			buf := make([]byte, 1<<20)
			k, err := cli.Read(buf)
			if err != nil {
				done <- result{i, []byte("!READ " + err.Error())}
				return
			}
			done <- result{i, buf[:k]}
		}(i, pc)
	}
	watchdog := time.After(60 * time.Second)
	if n.heldC != nil {
		select {
		case n.heldC <- server.VerifRound{N: len(round), Hold: n.hold}:
		case <-watchdog:
			n.dead = true
		}
		if slow {
			// an empty round is taken by the pump only when the held round has been committed and applied
			select {
			case n.heldC <- server.VerifRound{N: 0, Hold: 0}:
			case <-watchdog:
				n.dead = true
			}
			close(release)
		}
	} else {
		select {
		case n.roundC <- len(round):
		case <-watchdog:
			n.dead = true
		}
	}
	for got := 0; got < len(round) && !n.dead; got++ {
		select {
		case r := <-done:
			wires[r.i] = r.wire
		case <-watchdog:
			n.dead = true
		}
	}
	for i := range round {
		if wires[i] == nil {
			status[i] = "!HANG"
		}
	}
	return wires, status
}

func (n *node) drainEntries() [][]byte {
	n.mu.Lock()
	defer n.mu.Unlock()
	e := n.entries
	n.entries = nil
	return e
}

// c14run <standalone|cluster> <prog> <out> <scratch>
// program file as for harness memrun (CASE/C/DUMP/END); output: the same trace format (S/D/DEND
// lines), plus <out>.wire (W <case> <step> <name> <hex reply bytes>) and, in cluster mode,
// <out>.entries (P <case> <step> <arghex>* | <hex log entry payload>).
func c14RunCmd(args []string) error {
	if len(args) != 4 {
		return fmt.Errorf("c14run <standalone|cluster> <prog> <out> <scratch>")
	}
	cluster := args[0] == "cluster" || args[0] == "clusterpar" || args[0] == "clusterhold" || args[0] == "clusternodes"
	par := args[0] == "clusterpar" || args[0] == "clusterhold" || args[0] == "clusternodes"
	held := args[0] == "clusterhold"
	nodes := args[0] == "clusternodes"

	f, err := os.Open(args[1])
	if err != nil {
		return err
	}
	defer f.Close()
	mk := func(p string) (*bufio.Writer, *os.File) {
		of, err := os.Create(p)
		if err != nil {
			panic(err)
		}
		return bufio.NewWriterSize(of, 1<<20), of
	}
	w, of := mk(args[2])
	defer of.Close()
	defer w.Flush()
	ww, wf := mk(args[2] + ".wire")
	defer wf.Close()
	defer ww.Flush()
	we, ef := mk(args[2] + ".entries")
	defer ef.Close()
	defer we.Flush()
	wt, tf := mk(args[2] + ".timing")
	defer tf.Close()
	defer wt.Flush()
	var w2 *bufio.Writer
	if nodes {
		var f2 *os.File
		w2, f2 = mk(args[2] + ".node2")
		defer f2.Close()
		defer w2.Flush()
	}
	progress, _ := os.Create(args[2] + ".progress")
	defer progress.Close()
	sc := bufio.NewScanner(f)
	sc.Buffer(make([]byte, 1<<20), 1<<28)
	var nd *node
	caseName := ""
	step := 0
	// clusterpar: consecutive C lines on distinct connections form one round
	var round []parCmd
	flushRound := func() {
		if len(round) == 0 {
			return
		}
		w.Flush()
		progress.Truncate(0)
		progress.Seek(0, 0)
		fmt.Fprintf(progress, "%s %d\n", caseName, round[0].step)
		now := time.Now()
		var wires [][]byte
		status := make([]string, len(round))
		if nd.dead {
			wires = make([][]byte, len(round))
			for i := range status {
				status[i] = "!SKIP"
			}
		} else {
			wires, status = nd.execRound(round)
		}
		for i, pc := range round {
			name := ""
			if len(pc.cmd) > 0 {
				name = strings.ToLower(string(pc.cmd[0]))
			}
			out := status[i]
			if out == "" {
				out = canonForCmd(name, canonFromWire(wires[i]))
			}
			fmt.Fprintf(w, "S %d %d %d %s | %s\n", now.Unix(), now.UnixMilli(), pc.conn, strings.Join(pc.hex, " "), out)
			fmt.Fprintf(ww, "W %s %d %s %s\n", caseName, pc.step, hx([]byte(name)), hx(wires[i]))
			if held && i < len(nd.elapsed) {
				sl := 0
				if nd.slow {
					sl = 1
				}
				fmt.Fprintf(wt, "T %s %d %d %d %d\n", caseName, pc.step, nd.hold.Milliseconds(), nd.elapsed[i].Milliseconds(), sl)
			}
		}
		// every payload handed to publishEntries must be the encoding of one of the round's commands
		left := append([]parCmd{}, round...)
		for _, e := range nd.drainEntries() {
			var back struct {
				Data [][]byte
				ID   string
			}
			k := -1
			if json.Unmarshal(e, &back) == nil {
				for j, pc := range left {
					if sameArgs(pc.cmd, back.Data) {
						k = j
						break
					}
				}
			}
			if k < 0 {
				if len(left) == 0 {
					fmt.Fprintf(we, "P %s %d 21554e4d415443484544 | %s\n", caseName, round[0].step, hx(e))
					continue
				}
				k = 0
			}
			fmt.Fprintf(we, "P %s %d %s | %s\n", caseName, left[k].step, strings.Join(left[k].hex, " "), hx(e))
			left = append(left[:k], left[k+1:]...)
		}
		round = round[:0]
	}
	for sc.Scan() {
		fs := strings.Fields(sc.Text())
		if len(fs) == 0 {
			continue
		}
		switch fs[0] {
		case "CASE":
			if nd != nil {
				nd.close()
			}
			dbs, _ := strconv.Atoi(fs[2])
			flushRound()
			nd = newNode(setupServer(dbs, args[3]), cluster, par, held, nodes)
			if w2 != nil {
				fmt.Fprintf(w2, "CASE %s %d\n", fs[1], dbs)
			}
			caseName, step = fs[1], 0
			fmt.Fprintf(w, "CASE %s %d\n", fs[1], dbs)
			progress.Truncate(0)
			progress.Seek(0, 0)
			fmt.Fprintf(progress, "%s 0\n", fs[1])
		case "C":
			ms, _ := strconv.Atoi(fs[2])
			if ms > 0 {
				time.Sleep(time.Duration(ms) * time.Millisecond)
			}
			cmd := make([][]byte, 0, len(fs)-3)
			for _, h := range fs[3:] {
				cmd = append(cmd, unhx(h))
			}
			step++
			if par {
				c, _ := strconv.Atoi(fs[1])
				c %= parConns
				for _, pc := range round {
					if pc.conn == c {
						flushRound()
						break
					}
				}
				round = append(round, parCmd{conn: c, cmd: cmd, hex: fs[3:], step: step})
				continue
			}
			// every intermediate result is on disk before a step that may kill the process
			w.Flush()
			progress.Truncate(0)
			progress.Seek(0, 0)
			fmt.Fprintf(progress, "%s %d\n", caseName, step)
			now := time.Now()
			name := ""
			if len(cmd) > 0 {
				name = strings.ToLower(string(cmd[0]))
			}
			var wire []byte
			out := "!SKIP"
			if !nd.dead {
				wire, out = nd.exec(cmd)
				if out == "" {
					out = canonForCmd(name, canonFromWire(wire))
				}
			}
			fmt.Fprintf(w, "S %d %d %s %s | %s\n", now.Unix(), now.UnixMilli(), fs[1], strings.Join(fs[3:], " "), out)
			fmt.Fprintf(ww, "W %s %d %s %s\n", caseName, step, hx([]byte(name)), hx(wire))
			if cluster {
				for _, e := range nd.drainEntries() {
					fmt.Fprintf(we, "P %s %d %s | %s\n", caseName, step, strings.Join(fs[3:], " "), hx(e))
				}
			}
		case "H", "L":
			// clusterhold: hold the commit of the following rounds for this many (virtual) milliseconds;
			// L: and let the clients read their replies only after the commit was released
			flushRound()
			if nd != nil && len(fs) > 1 {
				ms, _ := strconv.Atoi(fs[1])
				nd.hold = time.Duration(ms) * time.Millisecond
				nd.slow = fs[0] == "L"
			}
		case "DUMP":
			flushRound()
			if nd.dead {
				continue
			}
			now := time.Now().Unix()
			for i, d := range nd.mgr.DBs {
				for _, l := range memdb.VerifDump(d, now) {
					fmt.Fprintf(w, "D %d %s\n", i, l)
				}
			}
			fmt.Fprintf(w, "DEND %d\n", now)
			if w2 != nil && nd.mgr2 != nil {
				// the second node of the shared log: same dump expected
				for i, d := range nd.mgr2.DBs {
					for _, l := range memdb.VerifDump(d, now) {
						fmt.Fprintf(w2, "D %d %s\n", i, l)
					}
				}
				fmt.Fprintf(w2, "DEND %d\n", now)
			}
		case "END":
			flushRound()
			fmt.Fprintf(w, "END\n")
		}
	}
	if nd != nil {
		nd.close()
	}
	return nil
}

func sameArgs(a, b [][]byte) bool {
	if len(a) != len(b) {
		return false
	}
	for i := range a {
		if !bytes.Equal(a[i], b[i]) {
			return false
		}
	}
	return true
}

var _ = resp.MakeErrorData
