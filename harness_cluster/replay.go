package main

import (
	"bufio"
	"context"
	"fmt"
	"os"
	"strconv"
	"strings"
	"time"

	"github.com/innovationb1ue/RedisGO/memdb"
	"github.com/innovationb1ue/RedisGO/raftexample"
	"github.com/innovationb1ue/RedisGO/server"
)

func init() { subcmds["replayrun"] = replayRunCmd }

// the i-th command (1-based) of the long log: its position is recorded three ways -- appended to one
// list (order and multiplicity of everything), its own key, a shared counter
func longLogCmd(i int) [][]byte {
	s := strconv.Itoa(i)
	switch i % 4 {
	case 0:
		return [][]byte{[]byte("set"), []byte("k" + s), []byte("v" + s)}
	case 1:
		return [][]byte{[]byte("incr"), []byte("ctr")}
	default:
		return [][]byte{[]byte("rpush"), []byte("seq"), []byte(s)}
	}
}

// replayrun <n> <out> <scratch>: C08. A log of n committed commands is (a) executed one by one on a
// standalone Manager -- trace <out> in the memrun format, replayed by the extracted model -- and
// (b) handed as ONE Ready (a restart on a long WAL) to a node's real apply path, hook VerifReplay:
// entriesToApply -> publishEntries -> commitC -> handleClusterCommits. <out>.replay holds the
// keyspace dump of (b); it must be the dump at the end of (a).
func replayRunCmd(args []string) error {
	if len(args) != 3 {
		return fmt.Errorf("replayrun <n> <out> <scratch>")
	}
	n, _ := strconv.Atoi(args[0])
	of, err := os.Create(args[1])
	if err != nil {
		return err
	}
	defer of.Close()
	w := bufio.NewWriterSize(of, 1<<20)
	defer w.Flush()
	cfg := setupServer(1, args[2])
	ref := server.NewManager(cfg)
	node := server.NewManager(cfg)
	fmt.Fprintf(w, "CASE replay_%d 1\n", n)
	payloads := make([][]byte, 0, n)
	now := time.Now()
	for i := 1; i <= n; i++ {
		cmd := longLogCmd(i)
		hs := make([]string, 0, len(cmd))
		for _, a := range cmd {
			hs = append(hs, hx(a))
		}
		wire := server.VerifReplyBytes(ref.ExecCommand(context.Background(), cmd, nil))
		fmt.Fprintf(w, "S %d %d 0 %s | %s\n", now.Unix(), now.UnixMilli(), strings.Join(hs, " "), canonFromWire(wire))
		payloads = append(payloads, (&raftexample.RaftProposal{Data: cmd, ID: "replayed-" + strconv.Itoa(i)}).ToBytes())
	}
	for _, l := range memdb.VerifDump(ref.DBs[0], now.Unix()) {
		fmt.Fprintf(w, "D 0 %s\n", l)
	}
	fmt.Fprintf(w, "DEND %d\nEND\n", now.Unix())
	w.Flush()
	ok := server.VerifReplay(node, payloads)
	rf, err := os.Create(args[1] + ".replay")
	if err != nil {
		return err
	}
	defer rf.Close()
	rw := bufio.NewWriterSize(rf, 1<<20)
	defer rw.Flush()
	if !ok {
		fmt.Fprintln(rw, "!NOTOK")
	}
	for _, l := range memdb.VerifDump(node.DBs[0], now.Unix()) {
		fmt.Fprintf(rw, "D 0 %s\n", l)
	}
	return nil
}
