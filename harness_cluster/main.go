// verifharness_cluster: runs the cluster request path of RedisGO (built from VERIF_REPO's working
// tree with -tags verif) on generated inputs and writes what it observed, for comparison with the
// Coq models under coq/Cluster.
package main

import (
	"fmt"
	"os"
)

type subcmd func(args []string) error

var subcmds = map[string]subcmd{}

func main() {
	if len(os.Args) < 2 {
		fmt.Fprintln(os.Stderr, "usage: harness_cluster <subcommand> args...")
		os.Exit(2)
	}
	f, ok := subcmds[os.Args[1]]
	if !ok {
		fmt.Fprintln(os.Stderr, "unknown subcommand", os.Args[1])
		os.Exit(2)
	}
	if err := f(os.Args[2:]); err != nil {
		fmt.Fprintln(os.Stderr, "harness error:", err)
		os.Exit(3)
	}
}
