package main

import (
	"bufio"
	"encoding/json"
	"fmt"
	"os"
	"strconv"
	"sync"

	"github.com/innovationb1ue/RedisGO/server"
)

func init() { subcmds["idsrun"] = idsRunCmd }

// idsrun <rounds> <out> <scratch>: one process life of a cluster node's request path (hook
// VerifClusterLoopbackMulti): <rounds> rounds of one PING per connection; prints the id of every
// proposal that reached the log, one per line, in log order. Run twice by checks/c07.py: the ids
// of two process lives must not meet (C07_own_reply assumes unique proposal ids; the WAL keeps
// the ids of earlier lives and replays them through the apply loop after a restart).
func idsRunCmd(args []string) error {
	if len(args) != 3 {
		return fmt.Errorf("idsrun <rounds> <out> <scratch>")
	}
	rounds, _ := strconv.Atoi(args[0])
	of, err := os.Create(args[1])
	if err != nil {
		return err
	}
	defer of.Close()
	w := bufio.NewWriter(of)
	defer w.Flush()
	cfg := setupServer(1, args[2])
	mgr := server.NewManager(cfg)
	var mu sync.Mutex
	ids := []string{}
	clis, roundC, stop := server.VerifClusterLoopbackMulti(mgr, parConns, func(b []byte) {
		var p struct{ ID string }
		if json.Unmarshal(b, &p) != nil {
			p.ID = "!undecodable " + hx(b)
		}
		mu.Lock()
		ids = append(ids, p.ID)
		mu.Unlock()
	})
	defer stop()
	nd := &node{mgr: mgr, cluster: true, par: true, clis: clis, roundC: roundC}
	for r := 0; r < rounds; r++ {
		round := make([]parCmd, 0, parConns)
		for c := 0; c < parConns; c++ {
			round = append(round, parCmd{conn: c, cmd: [][]byte{[]byte("ping"), []byte(fmt.Sprintf("t%d-%d", r, c))}})
		}
		wires, status := nd.execRound(round)
		for i := range round {
			if status[i] != "" {
				return fmt.Errorf("round %d connection %d: %s", r, i, status[i])
			}
			_ = wires[i]
		}
	}
	mu.Lock()
	defer mu.Unlock()
	for _, id := range ids {
		fmt.Fprintln(w, id)
	}
	return nil
}
