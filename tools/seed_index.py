#!/usr/bin/env python3
"""Write seeded/INDEX.md from seeded/*/meta.json and seeded/RESULTS.json (written by run_seeds.py)."""
import json
from pathlib import Path
V = Path(__file__).resolve().parent.parent
res = json.loads((V / "seeded" / "RESULTS.json").read_text()) if (V / "seeded" / "RESULTS.json").exists() else {}
out = ["# Seeded breaking changes (written by independent sub-agents from the property text only)", "",
       "Each directory holds `patch.diff` (apply with `git -C /repo apply`), `demo/` (fails with the patch,",
       "passes without; see `demo/RUN.md`), `meta.json`. Every change was confirmed with `tools/seed_confirm.sh`",
       "(patch applies, tree builds, first-party test results unchanged, demonstration fails with / passes",
       "without). \"Reported by\" = what `tools/run_seeds.py` observed from `./check <id>` with the patch applied",
       "to /repo (always undone afterwards): exit code, replay kind, and the shrunk failing input when there is one.", "",
       "| seed | property | what it needs in order to manifest | reported by |", "|---|---|---|---|"]
for d in sorted(p for p in (V / "seeded").iterdir() if p.is_dir()):
    m = json.loads((d / "meta.json").read_text())
    r = res.get(d.name, {})
    cells = []
    for k, v in sorted(r.items()):
        if v["rc"] == 0:
            cells.append("%s: **missed** (exit 0)" % k)
        else:
            cells.append("%s: VIOLATION%s%s%s" % (k, " (no-failing-input-found)" if v["no_input"] else "",
                                                 " kind=%s" % v["kind"] if v["kind"] else "",
                                                 " — `%s`" % v["shown"].replace("|", "\\|").replace("\n", " ") if v["shown"] else ""))
    needs = str(m.get("needs", "")).replace("|", "\\|").replace("\n", " ")
    out.append("| %s | %s | %s | %s |" % (d.name, m.get("property"), needs[:400], "<br>".join(cells) or "(not run yet)"))
(V / "seeded" / "INDEX.md").write_text("\n".join(out) + "\n")
print("index written,", len(out) - 10, "seeds")
