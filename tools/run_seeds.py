#!/usr/bin/env python3
"""tools/run_seeds.py [seed-id ...] [--tier quick|thorough] — applies each seeded change to /repo, runs the quick
check of its property, prints whether it was reported, and ALWAYS restores /repo afterwards.
Refuses to run when /repo has uncommitted changes."""
import json
import subprocess
import sys
from pathlib import Path

import os
V = Path(__file__).resolve().parent.parent
REPO = os.environ.get("VERIF_REPO", "/repo")   # a second lane: a /verif worktree + a /repo worktree, VERIF_REPO set
tier = "quick"
args = sys.argv[1:]
if "--tier" in args:
    i = args.index("--tier")
    tier = args[i + 1]
    del args[i:i + 2]
dirty = subprocess.run("git -C %s status --porcelain --untracked-files=no" % REPO, shell=True, capture_output=True, text=True).stdout.strip()
if dirty:
    sys.exit(REPO + " has uncommitted changes:\n" + dirty)
seeds = sorted(p for p in (V / "seeded").iterdir() if p.is_dir() and (not args or p.name in args))
resf = V / "seeded" / "RESULTS.json"
results = json.loads(resf.read_text()) if resf.exists() else {}
for s in seeds:
    meta = json.loads((s / "meta.json").read_text())
    if "neutralised" in str(meta.get("status", "")):
        print("%-34s (neutralised by a later repair; skipped)" % s.name)
        continue
    pids = meta.get("checks") or [meta["property"]]
    ok = subprocess.run(["git", "-C", REPO, "apply", str(s / "patch.diff")]).returncode == 0
    if not ok:
        print("%-34s PATCH DOES NOT APPLY (code moved on?)" % s.name)
        subprocess.run("git -C %s checkout -- ." % REPO, shell=True)
        continue
    try:
        for pid in pids:
            r = subprocess.run(["./check", pid, "--tier", tier], cwd=V, capture_output=True, text=True, timeout=3600)
            lines = [l for l in r.stdout.splitlines() if l.startswith("VIOLATION")]
            print("%-34s %s rc=%d %s" % (s.name, pid, r.returncode, lines[0] if lines else "(no VIOLATION line)"), flush=True)
            kind, shown = "", ""
            if lines:
                import re
                m = re.search(r"replay=(\S+)", lines[0])
                if m and Path(m.group(1)).exists():
                    try:
                        rp = json.loads(Path(m.group(1)).read_text())
                        kind = str(rp.get("kind", ""))
                        shown = "; ".join(rp.get("readable", [])[1:-1])[:160] if rp.get("readable") else str(rp.get("detail", rp.get("what", rp.get("checker", ""))))[:160]
                    except Exception:
                        pass
            results.setdefault(s.name, {})[pid + ":" + tier] = dict(rc=r.returncode, no_input=("no-failing-input-found" in (lines[0] if lines else "")), kind=kind, shown=shown)
            resf.write_text(json.dumps(results, indent=1, sort_keys=True))
    finally:
        subprocess.run("git -C %s checkout -- . && git -C %s clean -fdq -- memdb server resp util raftexample" % (REPO, REPO), shell=True)
