#!/bin/bash
# tools/seed_confirm.sh <outdir> <worktree> <demo-src> <demo-dst-rel> <go test args...>
# Confirms a seeded change: patch applies, builds, first-party tests unchanged, demo fails with / passes without.
set -u
export GOFLAGS=-mod=mod GOPROXY=off GOSUMDB=off GOTOOLCHAIN=local
OUT=$1; WT=$2; DSRC=$3; DDST=$4; shift 4
cd "$WT" || exit 2
git checkout -q -- . ; git clean -fdq
PK="./memdb/ ./server/ ./util/ ./resp/ ./raftexample/ ./config/"
tests() { go test -count=1 -v $PK 2>&1 | grep -E '^(=== RUN|--- (PASS|FAIL)|(ok|FAIL)\s)' | grep -E '^--- ' | sed 's/ (.*//' | sort; }
tests > /tmp/sc_before.txt
cp "$DSRC" "$DDST"
echo "== demo WITHOUT patch"; timeout 600 go test -count=1 "$@" 2>&1 | tail -5; r0=${PIPESTATUS[0]}
git apply "$OUT/patch.diff" || { echo "PATCH DOES NOT APPLY"; exit 3; }
echo "== build"; go build ./... || { echo BUILD FAILED; exit 4; }
echo "== demo WITH patch"; timeout 600 go test -count=1 "$@" 2>&1 | tail -12; r1=${PIPESTATUS[0]}
rm -f "$DDST"
tests > /tmp/sc_after.txt
echo "== first-party test diff (empty = same)"; diff /tmp/sc_before.txt /tmp/sc_after.txt && echo SAME
git checkout -q -- . ; git clean -fdq
echo "RESULT without=$r0 with=$r1 (want 0 and non-zero)"
