#!/usr/bin/env python3
"""Resolve the two routine merge conflicts: coq/Mem/Exec.v (union of Require lines and of the
families list, canonical order) and coq/_CoqProject (dedupe)."""
import re
from pathlib import Path
V = Path(__file__).resolve().parent.parent
ORDER = ["strings_dispatch", "lists_dispatch", "hashes_dispatch", "sets_dispatch", "zsets_dispatch", "streams_dispatch"]
p = V / "coq/Mem/Exec.v"
s = p.read_text()
if "<<<<<<<" in s:
    def res(m):
        body = m.group(0)
        lines = [l for l in body.splitlines() if not re.match(r"^(<<<<<<<|=======|>>>>>>>|\|\|\|\|\|\|\|)", l)]
        if any(l.startswith("Definition families") for l in lines):
            fams = set()
            for l in lines:
                fams |= set(re.findall(r"\w+_dispatch", l))
            fams = [f for f in ORDER if f in fams] + sorted(f for f in fams if f not in ORDER)
            return "Definition families : list family := [%s].\n" % "; ".join(fams)
        out = []
        for l in lines:
            if l not in out:
                out.append(l)
        return "\n".join(out) + "\n"
    s = re.sub(r"<<<<<<<[^\n]*\n.*?>>>>>>>[^\n]*\n", res, s, flags=re.S)
    p.write_text(s)
    print("resolved Exec.v")
q = V / "coq/_CoqProject"
seen, out = set(), []
for l in q.read_text().splitlines():
    if l in seen and l.strip():
        continue
    seen.add(l)
    if not l.startswith(("<<<<<<<", "=======", ">>>>>>>")):
        out.append(l)
q.write_text("\n".join(out) + "\n")
