#!/usr/bin/env python3
"""After cherry-picking area fix commits onto /repo main, rewrite the hashes in
KNOWN_FINDINGS.txt 'fixed:' lines to the corresponding commits on main (matched by subject)."""
import re
import subprocess
from pathlib import Path
V = Path(__file__).resolve().parent.parent


def git(*a):
    return subprocess.run(["git", "-C", "/repo"] + list(a), capture_output=True, text=True).stdout.strip()


main = {}
for l in git("log", "--format=%h\t%s", "main").splitlines():
    h, s = l.split("\t", 1)
    main.setdefault(s, h)
out = []
for line in (V / "KNOWN_FINDINGS.txt").read_text().splitlines():
    m = re.match(r"^(fixed:\s+property=\S+\s+)(\S+)(\s+.*)$", line)
    if m:
        h = m.group(2)
        onmain = subprocess.run(["git", "-C", "/repo", "merge-base", "--is-ancestor", h, "main"], capture_output=True).returncode == 0
        if not onmain:
            subj = git("log", "-1", "--format=%s", h)
            if subj and subj in main:
                line = m.group(1) + main[subj] + m.group(3)
            else:
                print("UNMAPPED:", line[:100])
    out.append(line)
(V / "KNOWN_FINDINGS.txt").write_text("\n".join(out) + "\n")
