#!/bin/bash
# tools/stats.sh — the numbers quoted in DESIGN.md 7.5-7.7
cd "$(dirname "$0")/.."
echo "coq lines:   $(cat $(git ls-files 'coq/*.v' 'coq/**/*.v') | wc -l) in $(git ls-files 'coq/*.v' 'coq/**/*.v' | wc -l) files"
echo "closed proofs (Qed/Defined): $(cat $(git ls-files 'coq/**/*.v') | grep -cE '^\s*(Qed|Defined)\.')"
echo "property theorems: $(cat coq/Properties/C*.v | grep -cE '^(Theorem|Lemma|Corollary) ')  in $(ls coq/Properties/C*.v | wc -l) files"
echo "harness lines (go/ml/py): $(cat $(git ls-files '*.go' '*.ml' '*.py') | wc -l)"
echo "fixed: $(grep -c '^fixed:' KNOWN_FINDINGS.txt)  open: $(grep -c '^open:' KNOWN_FINDINGS.txt)"
echo "seeds: $(ls -d seeded/*/ | wc -l)"
echo "extract files: $(ls coq/Extract/*.v | wc -l)"
