#!/bin/bash
# Re-run every check that has a manifest.d fragment on /repo's unchanged tree (quick tier) and report.
cd "$(dirname "$0")/.."
dirty=$(git -C /repo status --porcelain --untracked-files=no)
[ -n "$dirty" ] && { echo "/repo dirty"; exit 2; }
for f in manifest.d/C*.json; do p=$(basename $f .json); s=$(date +%s); ./check $p --tier quick > /tmp/regen_$p.log 2>&1; rc=$?; echo "$p rc=$rc $(( $(date +%s)-s ))s $(grep -c KNOWN-FINDING /tmp/regen_$p.log)kf $(grep VIOLATION /tmp/regen_$p.log | head -1)"; done
