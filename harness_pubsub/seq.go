package main

import (
	"bufio"
	"fmt"
	"os"
	"sort"
	"strconv"
	"strings"
	"sync/atomic"
	"time"

	"github.com/innovationb1ue/RedisGO/config"
)

func init() { subcmds["seq"] = seqCmd }

const replyTimeout = 3 * time.Second

// seqCmd: programs file
//
//	CASE <id>
//	S <c> <ch> [<ch> ...]    SUBSCRIBE on connection c (hex channel names)
//	U <c> <ch>               ChanMap.UnSubscribe of c's subscription to ch (API level: the server has no UNSUBSCRIBE command)
//	P <p> <ch> <msg>         PUBLISH on connection p
//	D <c>                    the client closes connection c; wait until Manager.Handle returned
//	K <c>                    connection c dies: from now on the server's writes to it fail, its reads block
//	END
//
// trace file: CASE / OP ... (one per model operation) / RECV <c> <hex> / ERR <text> / END
func seqCmd(args []string) error {
	if len(args) != 2 {
		return fmt.Errorf("usage: seq <programs> <trace>")
	}
	in, err := os.Open(args[0])
	if err != nil {
		return err
	}
	defer in.Close()
	out, err := os.Create(args[1])
	if err != nil {
		return err
	}
	defer out.Close()
	dir := scratchDir()
	defer os.RemoveAll(dir)
	cfg := setupServer(dir)

	sc := bufio.NewScanner(in)
	sc.Buffer(make([]byte, 1<<20), 1<<26)
	var cur [][]string
	id := ""
	errs := 0
	for sc.Scan() {
		f := strings.Fields(sc.Text())
		if len(f) == 0 {
			continue
		}
		switch f[0] {
		case "CASE":
			id = f[1]
			cur = nil
		case "END":
			// the line is on disk before the case runs: a crash of the process names the case
			fmt.Fprintf(out, "CASE %s\n", id)
			out.Sync()
			if !runSeqCase(cfg, cur, out) {
				errs++
			}
			fmt.Fprintf(out, "END\n")
			out.Sync()
			if errs >= 2 {
				// every further case would wait for its time-outs too: the verdict is known
				return nil
			}
		default:
			cur = append(cur, f)
		}
	}
	return sc.Err()
}

func runSeqCase(cfg *config.Config, prog [][]string, out *os.File) bool {
	env, err := newSrvEnv(cfg)
	if err != nil {
		fmt.Fprintf(out, "ERR listen: %v\n", err)
		return false
	}
	clients := map[int]*client{}
	get := func(s string) (*client, error) {
		n, err := strconv.Atoi(s)
		if err != nil {
			return nil, err
		}
		if c, ok := clients[n]; ok {
			if c.closed {
				return nil, fmt.Errorf("operation on closed connection %d", n)
			}
			return c, nil
		}
		c, err := env.connect(n)
		if err != nil {
			return nil, err
		}
		clients[n] = c
		return c, nil
	}
	fail := ""
loop:
	for i, f := range prog {
		c, err := get(f[1])
		if err != nil {
			fail = fmt.Sprintf("op %d: %v", i, err)
			break
		}
		switch f[0] {
		case "S":
			args := [][]byte{[]byte("SUBSCRIBE")}
			for _, h := range f[2:] {
				args = append(args, unhx(h))
				fmt.Fprintf(out, "OP S %d %s\n", c.id, hx(unhx(h)))
			}
			if err := c.command(replyTimeout, args...); err != nil {
				fail = fmt.Sprintf("op %d SUBSCRIBE: %v", i, err)
				break loop
			}
		case "U":
			fmt.Fprintf(out, "OP U %d %s\n", c.id, hx(unhx(f[2])))
			if apiUnsubscribe == nil {
				fail = fmt.Sprintf("op %d: UnSubscribe is not available in the command-level harness", i)
				break loop
			}
			ch := string(unhx(f[2]))
			done := make(chan struct{})
			go func() {
				apiUnsubscribe(env, ch, c)
				close(done)
			}()
			select {
			case <-done:
			case <-time.After(replyTimeout):
				fail = fmt.Sprintf("op %d UnSubscribe did not return", i)
				break loop
			}
		case "P":
			fmt.Fprintf(out, "OP P %d %s %s\n", c.id, hx(unhx(f[2])), hx(unhx(f[3])))
			if err := c.command(replyTimeout, []byte("PUBLISH"), unhx(f[2]), unhx(f[3])); err != nil {
				fail = fmt.Sprintf("op %d PUBLISH: %v", i, err)
				break loop
			}
			for _, k := range clients {
				if atomic.LoadInt32(&k.srv.failed) == 1 && !k.reaped {
					// Send met a dead connection and closed it: its handler ends, its context is
					// cancelled, its subscriptions are released (asynchronously; give them a moment)
					select {
					case <-k.done:
					case <-time.After(replyTimeout):
						fail = fmt.Sprintf("op %d: Manager.Handle of dead connection %d did not return", i, k.id)
						break loop
					}
					time.Sleep(2 * time.Millisecond)
					k.reaped = true
				}
			}
		case "D", "K":
			fmt.Fprintf(out, "OP %s %d\n", f[0], c.id)
			// everything written to c so far is read before the connection goes away
			if err := c.barrier(replyTimeout); err != nil {
				fail = fmt.Sprintf("op %d barrier: %v", i, err)
				break loop
			}
			c.closed = true
			if f[0] == "K" {
				// from now on writes to c fail; the server does not know yet
				atomic.StoreInt32(&c.srv.dead, 1)
				break
			}
			c.conn.Close()
			select {
			case <-c.done:
			case <-time.After(replyTimeout):
				fail = fmt.Sprintf("op %d: Manager.Handle did not return after the connection was closed", i)
				break loop
			}
		default:
			fail = "bad program line " + strings.Join(f, " ")
			break loop
		}
	}
	ids := make([]int, 0, len(clients))
	for n := range clients {
		ids = append(ids, n)
	}
	sort.Ints(ids)
	if fail == "" {
		for _, n := range ids {
			c := clients[n]
			if !c.closed {
				if err := c.barrier(replyTimeout); err != nil {
					fail = fmt.Sprintf("final barrier on %d: %v", n, err)
					break
				}
			}
		}
	}
	for _, n := range ids {
		fmt.Fprintf(out, "RECV %d %s\n", n, hx(clients[n].received()))
	}
	if fail != "" {
		// a command that got no reply: is it only that connection, or is pub/sub blocked for everybody?
		if strings.Contains(fail, "no reply within") {
			if pc, err := env.connect(1 << 20); err == nil {
				if err := pc.command(time.Second, []byte("PUBLISH"), []byte("verif-probe"), []byte("x")); err != nil {
					fail += "; afterwards PUBLISH verif-probe x on a fresh connection got no reply within 1s either: pub/sub of the database is blocked for everybody"
				} else {
					fail += "; a PUBLISH on a fresh connection is still answered"
				}
				defer pc.conn.Close()
			}
		}
		fmt.Fprintf(out, "ERR %s\n", strings.ReplaceAll(fail, "\n", " "))
	}
	// tear down: clients close, handlers return, listener closes
	for _, n := range ids {
		clients[n].conn.Close()
	}
	wait := make(chan struct{})
	go func() { env.wg.Wait(); close(wait) }()
	select {
	case <-wait:
	case <-time.After(replyTimeout):
		fmt.Fprintf(out, "ERR handlers still running after all connections were closed\n")
	}
	env.shutdown()
	return fail == ""
}
