package main

// The only file of the sequential driver that depends on the internal API of memdb's channel table.
func init() {
	apiUnsubscribe = func(env *srvEnv, ch string, c *client) {
		subs := env.mgr.DBs[0].SubChans
		// Subscribe returns the id of the existing subscription (or makes one that is removed at once)
		sid := subs.Subscribe(ch, c.srv)
		subs.UnSubscribe(ch, sid)
	}
}
