// verifharness_pubsub: drives the pub/sub path of RedisGO (built from the working tree of the
// repository) for property C19 and writes what it observed; verdicts are computed elsewhere
// (extracted Coq model + decoder in build/pubsubrun, checks/c19.py).
//
//	harness_pubsub seq <programs> <trace>          sequential programs over real TCP connections
//	harness_pubsub conc <seed> <pubs> <subs> <msgs> <chans> <stall 0|1> <watchdog_s> <out>
//	harness_pubsub lockcheck <repo> <out.json>      structural facts about memdb/pubsub_struct.go
package main

import (
	"fmt"
	"os"
)

type subcmd func(args []string) error

var subcmds = map[string]subcmd{}

func main() {
	if len(os.Args) < 2 {
		fmt.Fprintln(os.Stderr, "usage: harness_pubsub <seq|conc|lockcheck> args...")
		os.Exit(2)
	}
	f, ok := subcmds[os.Args[1]]
	if !ok {
		fmt.Fprintln(os.Stderr, "unknown subcommand", os.Args[1])
		os.Exit(2)
	}
	if err := f(os.Args[2:]); err != nil {
		fmt.Fprintln(os.Stderr, "harness error:", err)
		os.Exit(3)
	}
}
