package main

import (
	"fmt"
	"net"
	"os"
	"strconv"
	"strings"
	"time"

	"github.com/innovationb1ue/RedisGO/memdb"
)

func init() { subcmds["dlreset"] = dlresetCmd }

// pipeSub: a subscriber over net.Pipe whose reading the harness controls byte-exactly.
type pipeSub struct {
	cli net.Conn
	srv *srvConn
	buf []byte
}

func newPipeSub(env *srvEnv) *pipeSub {
	cli, srv := net.Pipe()
	p := &pipeSub{cli: cli, srv: &srvConn{Conn: srv}}
	go env.mgr.Handle(env.ctx, p.srv)
	return p
}

func (p *pipeSub) send(args ...[]byte) { go p.cli.Write(encodeCmd(args...)) }

// readValues reads exactly n complete RESP values (no byte more), or fails after d.
func (p *pipeSub) readValues(n int, d time.Duration) error {
	p.cli.SetReadDeadline(time.Now().Add(d))
	one := make([]byte, 1)
	start := len(p.buf)
	for got := 0; got < n; {
		if _, err := p.cli.Read(one); err != nil {
			return err
		}
		p.buf = append(p.buf, one[0])
		if end, ok := scanValue(p.buf, start, 0); ok && end == len(p.buf) {
			got++
			start = end
		}
	}
	return nil
}

// dlresetCmd <deadline_ms> <rounds> <trace> <diag>
//
// "Nobody takes Send's write deadline away": a PUBLISH must come back within the write deadline
// (hook H5) + slack although the subscriber it is writing to stops reading, also when another
// writer on the same connection finishes its own write in the meantime.
//
// variant A (rounds 0, 3, …) — the subscriber's own handler:
//
//	connection 1 (pipe) sends SUBSCRIBE ch and does not read the confirmation yet;
//	connection 3 PUBLISH ch m0 (Send arms its deadline on connection 1 and waits for the
//	handler's write); connection 1 reads exactly its confirmation, then never reads again;
//	-> the PUBLISH must reply (0) within deadline + slack; a late subscriber 2 and a second
//	publisher 4 must not block: SUBSCRIBE ch confirmed, PUBLISH ch hello reaches 2, replies 1.
//
// variant B (rounds 1, 4, …) — another Send:
//
//	connection 1 (pipe) subscribes to X and Y; connection 4 PUBLISH Y b is writing to it (unread);
//	connection 3 PUBLISH X a arms its deadline on connection 1 and queues behind that write;
//	connection 1 reads exactly the first message, then never reads again;
//	-> PUBLISH Y replies 1, PUBLISH X must reply (0) within deadline + slack; then as in A.
//
// variant C (rounds 2, 5, …) — another Send of another database: as B, but connection 1 does SELECT 1
// between its two SUBSCRIBEs and connection 4 publishes Y in database 1: one connection, subscriber
// in the channel tables of two databases.
//
// Written as sequential traces for `pubsubrun seq` (the order of effects is determined in both
// variants); a command that does not come back is an ERR line: the failing input.
func dlresetCmd(args []string) error {
	if len(args) != 4 {
		return fmt.Errorf("usage: dlreset <deadline_ms> <rounds> <trace> <diag>")
	}
	dms, _ := strconv.Atoi(args[0])
	rounds, _ := strconv.Atoi(args[1])
	out, err := os.Create(args[2])
	if err != nil {
		return err
	}
	defer out.Close()
	diag, err := os.Create(args[3])
	if err != nil {
		return err
	}
	defer diag.Close()
	dir := scratchDir()
	defer os.RemoveAll(dir)
	cfg := setupServer(dir)
	D := time.Duration(dms) * time.Millisecond
	old := memdb.VerifSetPubSubWriteTimeout(D)
	defer memdb.VerifSetPubSubWriteTimeout(old)
	slack := 6 * time.Second
	jitters := []int{40, 15, 70, 25, 55, 10, 85, 35}

	for r := 0; r < rounds; r++ {
		fmt.Fprintf(out, "CASE dlreset%d\n", r)
		out.Sync()
		env, err := newSrvEnv(cfg)
		if err != nil {
			return err
		}
		fail := ""
		x, y := []byte(fmt.Sprintf("dl-x-%d", r)), []byte(fmt.Sprintf("dl-y-%d", r))
		hello := []byte("hello")
		s := newPipeSub(env)
		var late, p3, p4 *client
		for _, cp := range []struct {
			c  **client
			id int
		}{{&late, 2}, {&p3, 3}, {&p4, 4}} {
			if c, err := env.connect(cp.id); err != nil {
				fail = fmt.Sprintf("connect: %v", err)
			} else {
				*cp.c = c
			}
		}
		variant := []string{"A", "B", "C"}[r%3]
		t0 := time.Now()
		if fail == "" && variant == "A" {
			fmt.Fprintf(out, "OP S 1 %s\n", hx(x))
			s.send([]byte("SUBSCRIBE"), x)
			time.Sleep(30 * time.Millisecond) // the handler has registered and is blocked writing the confirmation
			fmt.Fprintf(out, "OP K 1\nOP P 3 %s 6d30\n", hx(x))
			pubErr := make(chan error, 1)
			go func() { pubErr <- p3.command(D+slack, []byte("PUBLISH"), x, []byte("m0")) }()
			time.Sleep(time.Duration(jitters[r%len(jitters)]) * D / 100)
			if err := s.readValues(1, 5*time.Second); err != nil {
				fail = fmt.Sprintf("connection 1 could not read its confirmation: %v", err)
			}
			// connection 1 never reads again
			if err := <-pubErr; err != nil && fail == "" {
				fail = fmt.Sprintf("PUBLISH m0 by connection 3 did not come back within write deadline %v + %v (connection 1 read its SUBSCRIBE confirmation while the PUBLISH was writing to it, then stopped reading): %v", D, slack, err)
			}
		}
		if fail == "" && variant != "A" {
			fmt.Fprintf(out, "OP S 1 %s\nOP S 1 %s\n", hx(x), hx(y))
			s.send([]byte("SUBSCRIBE"), x)
			if err := s.readValues(1, 5*time.Second); err != nil {
				fail = fmt.Sprintf("connection 1 SUBSCRIBE: %v", err)
			}
			if variant == "C" && fail == "" {
				// channel Y lives in database 1: connection 1 becomes a subscriber of two databases
				s.send([]byte("SELECT"), []byte("1"))
				n := len(s.buf)
				if err := s.readValues(1, 5*time.Second); err != nil {
					fail = fmt.Sprintf("connection 1 SELECT 1: %v", err)
				}
				s.buf = s.buf[:n] // the model does not know SELECT
				if err := p4.silent(replyTimeout, []byte("SELECT"), []byte("1")); err != nil && fail == "" {
					fail = fmt.Sprintf("connection 4 SELECT 1: %v", err)
				}
			}
			s.send([]byte("SUBSCRIBE"), y)
			if err := s.readValues(1, 5*time.Second); err != nil && fail == "" {
				fail = fmt.Sprintf("connection 1 SUBSCRIBE: %v", err)
			}
			if fail == "" {
				// PUBLISH Y is writing to connection 1 (not read yet); PUBLISH X arms its deadline on
				// connection 1 and queues behind it; connection 1 reads exactly the first message, then
				// never again: the first Send finishes, the second must still time out
				fmt.Fprintf(out, "OP P 4 %s 62\nOP K 1\nOP P 3 %s 61\n", hx(y), hx(x))
				e4, e3 := make(chan error, 1), make(chan error, 1)
				go func() { e4 <- p4.command(D+slack, []byte("PUBLISH"), y, []byte("b")) }()
				time.Sleep(time.Duration(10+jitters[r%len(jitters)]/4) * D / 100)
				go func() { e3 <- p3.command(D+slack, []byte("PUBLISH"), x, []byte("a")) }()
				time.Sleep(time.Duration(10+jitters[(r+3)%len(jitters)]/4) * D / 100)
				if err := s.readValues(1, 5*time.Second); err != nil {
					fail = fmt.Sprintf("connection 1 could not read the first message: %v", err)
				}
				if err := <-e4; err != nil && fail == "" {
					fail = fmt.Sprintf("PUBLISH Y by connection 4: %v", err)
				}
				if err := <-e3; err != nil && fail == "" {
					fail = fmt.Sprintf("PUBLISH X by connection 3 did not come back within write deadline %v + %v: connection 1 is subscribed to X and Y; the PUBLISH to Y was writing to it, the PUBLISH to X queued behind it; connection 1 read the first message and then stopped reading: %v", D, slack, err)
				}
			}
		}
		if variant == "C" && fail == "" {
			if err := p4.silent(replyTimeout, []byte("SELECT"), []byte("0")); err != nil {
				fail = fmt.Sprintf("connection 4 SELECT 0: %v", err)
			}
		}
		elapsed := time.Since(t0)
		// nobody is blocked: a late subscriber and a second publisher get through
		if fail == "" {
			fmt.Fprintf(out, "OP S 2 %s\n", hx(x))
			if err := late.command(D+slack, []byte("SUBSCRIBE"), x); err != nil {
				fail = fmt.Sprintf("late SUBSCRIBE by connection 2 blocked: %v", err)
			}
		}
		if fail == "" {
			fmt.Fprintf(out, "OP P 4 %s %s\n", hx(x), hx(hello))
			if err := p4.command(D+slack, []byte("PUBLISH"), x, hello); err != nil {
				fail = fmt.Sprintf("second publisher (connection 4) blocked: %v", err)
			}
		}
		if fail == "" {
			for _, c := range []*client{late, p3, p4} {
				if err := c.barrier(replyTimeout); err != nil {
					fail = fmt.Sprintf("barrier on %d: %v", c.id, err)
				}
			}
		}
		fmt.Fprintf(out, "RECV 1 %s\n", hx(s.buf))
		if p3 != nil {
			fmt.Fprintf(out, "RECV 3 %s\n", hx(p3.received()))
		}
		if p4 != nil {
			fmt.Fprintf(out, "RECV 4 %s\n", hx(p4.received()))
		}
		if late != nil {
			fmt.Fprintf(out, "RECV 2 %s\n", hx(late.received()))
		}
		fmt.Fprintf(diag, "R dlreset%d variant=%s elapsed_ms=%d deadline_ms=%d\n", r, variant, elapsed.Milliseconds(), dms)
		if fail != "" {
			fmt.Fprintf(out, "ERR %s\n", strings.ReplaceAll(fail, "\n", " "))
		}
		fmt.Fprintf(out, "END\n")
		out.Sync()
		for _, c := range []*client{late, p3, p4} {
			if c != nil {
				c.conn.Close()
			}
		}
		s.cli.Close()
		env.shutdown()
		if fail != "" {
			return nil // further rounds would only wait for the same time-outs
		}
	}
	return nil
}
