package main

// splitmix64: every random choice of the harness derives from one seed.
type rng struct{ s uint64 }

func newRng(seed uint64) *rng { return &rng{s: seed*0x9E3779B97F4A7C15 + 0x1234567} }

func (r *rng) next() uint64 {
	r.s += 0x9E3779B97F4A7C15
	z := r.s
	z = (z ^ (z >> 30)) * 0xBF58476D1CE4E5B9
	z = (z ^ (z >> 27)) * 0x94D049BB133111EB
	return z ^ (z >> 31)
}

func (r *rng) intn(n int) int {
	if n <= 0 {
		return 0
	}
	return int(r.next() % uint64(n))
}

func (r *rng) pick(xs []string) string { return xs[r.intn(len(xs))] }

func (r *rng) chance(num, den int) bool { return r.intn(den) < num }
