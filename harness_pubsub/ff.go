package main

import (
	"fmt"
	"net"
	"os"
	"strconv"
	"strings"
	"time"
)

func init() { subcmds["ff"] = ffCmd }

// ffCmd <seed> <rounds> <trace> <diag>
//
// Fire-and-forget publishers (only server.Manager.Handle is used: this file is also part of the
// command-level build).  Per round (fresh Manager):
//
//	connections 2, 3   subscribe to the channel (TCP, drained by reader goroutines)
//	connection 4       subscribes to another channel
//	connection 1       writes k pipelined PUBLISH frames in ONE write — k = 1, 2, 8, 32 by round — and
//	                   goes away at once without reading a reply: over net.Pipe it closes (the write
//	                   has returned, so the server has read every byte), over TCP it half-closes
//	                   (CloseWrite: a full close could reset the connection and discard bytes the
//	                   server process never got to read, which is not a fault of the server);
//	                   in the mixed rounds an unrelated command (SET) stands between the PUBLISHes.
//
// When the publisher's handler has returned, every PUBLISH the server received completely must have
// been executed: the trace lists them as ordinary P operations (the publisher's own replies are not
// compared, nobody reads them) and `pubsubrun seq` demands every message, in order, on connections 2
// and 3 and nothing on 4.
func ffCmd(args []string) error {
	if len(args) != 4 {
		return fmt.Errorf("usage: ff <seed> <rounds> <trace> <diag>")
	}
	seed, _ := strconv.Atoi(args[0])
	rounds, _ := strconv.Atoi(args[1])
	out, err := os.Create(args[2])
	if err != nil {
		return err
	}
	defer out.Close()
	diag, err := os.Create(args[3])
	if err != nil {
		return err
	}
	defer diag.Close()
	dir := scratchDir()
	defer os.RemoveAll(dir)
	cfg := setupServer(dir)
	rg := newRng(uint64(seed)*2654435761 + 11)
	ks := []int{1, 2, 8, 32}

	for r := 0; r < rounds; r++ {
		k := ks[r%len(ks)]
		pipe := (r/len(ks))%2 == 0
		mixed := (r/(2*len(ks)))%2 == 1
		fmt.Fprintf(out, "CASE ff%d\n", r)
		out.Sync()
		env, err := newSrvEnv(cfg)
		if err != nil {
			return err
		}
		ch, other := []byte(fmt.Sprintf("ff-%d", r)), []byte(fmt.Sprintf("ff-other-%d", r))
		fail := ""
		var subs []*client
		for i, c := range [][]byte{ch, ch, other} {
			cl, err := env.connect(i + 2)
			if err != nil {
				fail = fmt.Sprintf("connect: %v", err)
				break
			}
			subs = append(subs, cl)
			fmt.Fprintf(out, "OP S %d %s\n", cl.id, hx(c))
			if err := cl.command(replyTimeout, []byte("SUBSCRIBE"), c); err != nil {
				fail = fmt.Sprintf("SUBSCRIBE on %d: %v", cl.id, err)
				break
			}
		}
		if fail == "" {
			// the publisher's whole life: one write, then gone
			var frames []byte
			for j := 0; j < k; j++ {
				m := []byte(fmt.Sprintf("m%d:", j))
				if rg.chance(1, 3) {
					m = append(m, []byte("\r\n\x00\xff")...)
				}
				frames = append(frames, encodeCmd([]byte("PUBLISH"), ch, m)...)
				fmt.Fprintf(out, "OP P 1 %s %s\n", hx(ch), hx(m))
				if mixed && j%2 == 0 {
					frames = append(frames, encodeCmd([]byte("SET"), []byte("ff-key"), []byte(strconv.Itoa(j)))...)
				}
			}
			done := make(chan struct{})
			how := ""
			if pipe {
				how = "net.Pipe, Close"
				cli, srv := net.Pipe()
				go func() { env.mgr.Handle(env.ctx, &srvConn{Conn: srv}); close(done) }()
				if _, err := cli.Write(frames); err != nil {
					fail = fmt.Sprintf("publisher write: %v", err)
				}
				cli.Close()
			} else {
				how = "TCP, CloseWrite"
				cl, err := env.connectOpt(1, false)
				if err != nil {
					fail = fmt.Sprintf("connect: %v", err)
				} else {
					done = cl.done
					if _, err := cl.conn.Write(frames); err != nil {
						fail = fmt.Sprintf("publisher write: %v", err)
					}
					cl.conn.(*net.TCPConn).CloseWrite()
					defer cl.conn.Close()
				}
			}
			fmt.Fprintf(diag, "R ff%d k=%d transport=%q mixed=%v bytes=%d\n", r, k, how, mixed, len(frames))
			if fail == "" {
				select {
				case <-done:
				case <-time.After(10 * time.Second):
					fail = fmt.Sprintf("the publisher's Manager.Handle did not return within 10s after the publisher went away (%s, %d pipelined PUBLISH in one write)", how, k)
				}
			}
		}
		if fail == "" {
			for _, c := range subs {
				if err := c.barrier(replyTimeout); err != nil {
					fail = fmt.Sprintf("barrier on %d: %v", c.id, err)
				}
			}
		}
		for _, c := range subs {
			fmt.Fprintf(out, "RECV %d %s\n", c.id, hx(c.received()))
		}
		if fail != "" {
			fmt.Fprintf(out, "ERR %s\n", strings.ReplaceAll(fail, "\n", " "))
		}
		fmt.Fprintf(out, "END\n")
		out.Sync()
		for _, c := range subs {
			c.conn.Close()
		}
		env.shutdown()
	}
	return nil
}
