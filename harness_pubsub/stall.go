package main

import (
	"fmt"
	"net"
	"os"
	"strconv"
	"strings"
	"time"

	"github.com/innovationb1ue/RedisGO/memdb"
)

func init() { subcmds["stall"] = stallCmd }

// stallCmd <k> <deadline_ms> <rounds> <trace> <diag>
//
// The deterministic "one subscriber never reads" scenario.  Per round (fresh Manager):
//
//	connection 1            subscribes to the channel over net.Pipe and then never reads again
//	connections 2..k+1      healthy subscribers (TCP, a reader goroutine drains them all the time)
//	connection k+2          publishes m1, then m2
//
// The write deadline of Send is set to <deadline_ms> through hook H5.  Written as a trace for
// `pubsubrun seq`: OP S for every subscriber, OP K 1 (from the model's point of view the stalled
// connection is one whose writes fail), OP P twice, RECV for everybody.  The model then demands: both
// PUBLISH replies are k, every healthy connection received m1 and m2.
//
// <diag>: per round and healthy connection every write the server made on it:
//
//	W <round> <conn> <remaining_ms> <gap_ms> <dur_ms> <error or ->
//
// remaining = the time the server allowed for that write (deadline - now when it called
// SetWriteDeadline), gap = from then to the start of the write, dur = duration of the write.
// A write to a draining subscriber that fails although remaining+gap+dur show that far less than
// the deadline had passed is a fault of the server, not of a slow machine.
func stallCmd(args []string) error {
	if len(args) != 5 {
		return fmt.Errorf("usage: stall <k> <deadline_ms> <rounds> <trace> <diag>")
	}
	k, _ := strconv.Atoi(args[0])
	dms, _ := strconv.Atoi(args[1])
	rounds, _ := strconv.Atoi(args[2])
	out, err := os.Create(args[3])
	if err != nil {
		return err
	}
	defer out.Close()
	diag, err := os.Create(args[4])
	if err != nil {
		return err
	}
	defer diag.Close()
	dir := scratchDir()
	defer os.RemoveAll(dir)
	cfg := setupServer(dir)
	D := time.Duration(dms) * time.Millisecond
	old := memdb.VerifSetPubSubWriteTimeout(D)
	defer memdb.VerifSetPubSubWriteTimeout(old)
	ms := func(d time.Duration) string {
		return strconv.FormatFloat(float64(d)/float64(time.Millisecond), 'f', 2, 64)
	}

	for r := 0; r < rounds; r++ {
		fmt.Fprintf(out, "CASE stall%d\n", r)
		out.Sync()
		env, err := newSrvEnv(cfg)
		if err != nil {
			return err
		}
		ch := []byte(fmt.Sprintf("stall\r\n%d", r))
		fail := ""
		// healthy subscribers and the stalled one, in an order that changes with the round
		healthy := make([]*client, 0, k)
		var stalledSrv *srvConn
		var stalledCli net.Conn
		var stalledBuf []byte
		subscribeStalled := func() {
			cli, srv := net.Pipe()
			stalledCli = cli
			stalledSrv = &srvConn{Conn: srv}
			go env.mgr.Handle(env.ctx, stalledSrv)
			go cli.Write(encodeCmd([]byte("SUBSCRIBE"), ch))
			tmp := make([]byte, 256)
			cli.SetReadDeadline(time.Now().Add(5 * time.Second))
			for {
				if _, ok := scanValue(stalledBuf, 0, 0); ok {
					break
				}
				n, err := cli.Read(tmp)
				stalledBuf = append(stalledBuf, tmp[:n]...)
				if err != nil {
					fail = fmt.Sprintf("stalled subscriber got no confirmation: %v", err)
					break
				}
			}
			fmt.Fprintf(out, "OP S 1 %s\n", hx(ch))
		}
		for i := 0; i < k && fail == ""; i++ {
			if i == (r*3)%(k+1) {
				subscribeStalled()
			}
			c, err := env.connect(i + 2)
			if err != nil {
				fail = fmt.Sprintf("connect: %v", err)
				break
			}
			healthy = append(healthy, c)
			fmt.Fprintf(out, "OP S %d %s\n", c.id, hx(ch))
			if err := c.command(replyTimeout, []byte("SUBSCRIBE"), ch); err != nil {
				fail = fmt.Sprintf("SUBSCRIBE on %d: %v", c.id, err)
			}
		}
		if stalledCli == nil && fail == "" {
			subscribeStalled()
		}
		var pub *client
		if fail == "" {
			pub, err = env.connect(k + 2)
			if err != nil {
				fail = fmt.Sprintf("connect: %v", err)
			}
		}
		if fail == "" {
			// from here on writes to connection 1 do not succeed
			fmt.Fprintf(out, "OP K 1\n")
			for j, m := range [][]byte{[]byte("m1\r\nhello"), []byte("m2-world")} {
				fmt.Fprintf(out, "OP P %d %s %s\n", pub.id, hx(ch), hx(m))
				if err := pub.command(D+10*time.Second, []byte("PUBLISH"), ch, m); err != nil {
					fail = fmt.Sprintf("PUBLISH %d: %v", j+1, err)
					break
				}
				// everything written to the healthy subscribers is read before the next step; a
				// subscriber the server has dropped cannot answer: the comparison will show what it lacks
				for _, c := range healthy {
					if !c.closed {
						if err := c.barrier(replyTimeout); err != nil {
							c.closed = true
						}
					}
				}
			}
		}
		if pub != nil && fail == "" {
			if err := pub.barrier(replyTimeout); err != nil {
				fail = fmt.Sprintf("publisher barrier: %v", err)
			}
		}
		fmt.Fprintf(out, "RECV 1 %s\n", hx(stalledBuf))
		for _, c := range healthy {
			fmt.Fprintf(out, "RECV %d %s\n", c.id, hx(c.received()))
			for _, w := range c.srv.writeLog() {
				e := "-"
				if w.err != "" {
					e = strings.ReplaceAll(w.err, " ", "_")
				}
				fmt.Fprintf(diag, "W stall%d %d %s %s %s %s\n", r, c.id, ms(w.remaining), ms(w.gap), ms(w.dur), e)
			}
		}
		if stalledSrv != nil {
			for _, w := range stalledSrv.writeLog() {
				e := "-"
				if w.err != "" {
					e = strings.ReplaceAll(w.err, " ", "_")
				}
				fmt.Fprintf(diag, "W stall%d 1 %s %s %s %s\n", r, ms(w.remaining), ms(w.gap), ms(w.dur), e)
			}
		}
		if pub != nil {
			fmt.Fprintf(out, "RECV %d %s\n", pub.id, hx(pub.received()))
		}
		if fail != "" {
			fmt.Fprintf(out, "ERR %s\n", strings.ReplaceAll(fail, "\n", " "))
		}
		fmt.Fprintf(out, "END\n")
		out.Sync()
		for _, c := range healthy {
			c.conn.Close()
		}
		if pub != nil {
			pub.conn.Close()
		}
		if stalledCli != nil {
			stalledCli.Close()
		}
		env.shutdown()
	}
	return nil
}
