package main

import (
	"context"
	"encoding/hex"
	"fmt"
	"io"
	"log"
	"net"
	"os"
	"strconv"
	"sync"
	"sync/atomic"
	"time"

	"github.com/innovationb1ue/RedisGO/config"
	"github.com/innovationb1ue/RedisGO/logger"
	"github.com/innovationb1ue/RedisGO/memdb"
	"github.com/innovationb1ue/RedisGO/server"
)

// apiUnsubscribe: ChanMap.UnSubscribe of c's subscription to ch through the internal API of memdb
// (api.go). nil in the command-level build (harness_pubsub_cmd), which uses nothing but
// server.NewManager / Manager.Handle and the command registration.
var apiUnsubscribe func(env *srvEnv, ch string, c *client)

var registered = false

func setupServer(scratch string) *config.Config {
	cfg := &config.Config{
		Host: "127.0.0.1", Port: 0, LogDir: scratch, LogLevel: "panic",
		ShardNum: 16, ChanBufferSize: 10, Databases: 2,
	}
	config.Configures = cfg
	if !registered {
		if err := logger.SetUp(cfg); err != nil {
			panic(err)
		}
		logger.Disable()
		log.SetOutput(io.Discard)
		memdb.RegisterKeyCommands()
		memdb.RegisterStringCommands()
		memdb.RegisterPubSubCommands()
		registered = true
	}
	return cfg
}

func hx(b []byte) string {
	if len(b) == 0 {
		return "-"
	}
	return hex.EncodeToString(b)
}

func unhx(s string) []byte {
	if s == "-" || s == "" {
		return []byte{}
	}
	b, err := hex.DecodeString(s)
	if err != nil {
		panic("bad hex " + s)
	}
	return b
}

func encodeCmd(args ...[]byte) []byte {
	out := []byte("*" + strconv.Itoa(len(args)) + "\r\n")
	for _, a := range args {
		out = append(out, []byte("$"+strconv.Itoa(len(a))+"\r\n")...)
		out = append(out, a...)
		out = append(out, '\r', '\n')
	}
	return out
}

// ---------------------------------------------------------------- RESP value boundaries
// Used only to know when a reply has arrived (synchronisation), never for a verdict.

func scanLine(b []byte, pos int) (lineEnd int, next int, ok bool) {
	for i := pos; i+1 < len(b); i++ {
		if b[i] == '\r' && b[i+1] == '\n' {
			return i, i + 2, true
		}
	}
	return 0, 0, false
}

// scanValue returns the end offset of the complete value starting at pos.
func scanValue(b []byte, pos int, depth int) (end int, ok bool) {
	if pos >= len(b) || depth > 8 {
		return 0, false
	}
	le, next, ok := scanLine(b, pos+1)
	if !ok {
		return 0, false
	}
	switch b[pos] {
	case '+', '-', ':':
		return next, true
	case '$':
		n, err := strconv.Atoi(string(b[pos+1 : le]))
		if err != nil {
			return 0, false
		}
		if n < 0 {
			return next, true
		}
		if next+n+2 > len(b) {
			return 0, false
		}
		return next + n + 2, true
	case '*':
		n, err := strconv.Atoi(string(b[pos+1 : le]))
		if err != nil {
			return 0, false
		}
		p := next
		for i := 0; i < n; i++ {
			p, ok = scanValue(b, p, depth+1)
			if !ok {
				return 0, false
			}
		}
		return p, true
	}
	return 0, false
}

var pushPrefix = []byte("*3\r\n$7\r\nmessage\r\n")

func isPush(v []byte) bool {
	return len(v) >= len(pushPrefix) && string(v[:len(pushPrefix)]) == string(pushPrefix)
}

// ---------------------------------------------------------------- a client connection

type span struct{ a, b int }

// srvConn is the connection object handed to Manager.Handle: the accepted TCP connection, which
// the harness can declare dead.  A dead connection behaves like one whose peer has vanished:
// writes fail, reads keep blocking, so the server only learns about it when it writes.
type srvConn struct {
	net.Conn
	dead     int32
	failed   int32 // a write was attempted after the connection died
	errMu    sync.Mutex
	writeErr string // the first error a real write returned (diagnostics)
	// per write: the deadline the server set for it and how the write went (stall scenario)
	lastSet       time.Time     // when SetWriteDeadline(non-zero) was called
	lastRemaining time.Duration // deadline - now at that moment
	writes        []writeRec
}

// writeRec: one Write the server made on the connection.
type writeRec struct {
	remaining time.Duration // time the server allowed for it (deadline - now when it was set); 0 = no deadline set
	gap       time.Duration // from SetWriteDeadline to the start of Write
	dur       time.Duration // duration of Write
	err       string
}

func (s *srvConn) SetWriteDeadline(t time.Time) error {
	now := time.Now()
	s.errMu.Lock()
	if t.IsZero() {
		s.lastSet, s.lastRemaining = time.Time{}, 0
	} else {
		s.lastSet, s.lastRemaining = now, t.Sub(now)
	}
	s.errMu.Unlock()
	return s.Conn.SetWriteDeadline(t)
}

func (s *srvConn) writeLog() []writeRec {
	s.errMu.Lock()
	defer s.errMu.Unlock()
	return append([]writeRec(nil), s.writes...)
}

var errDead = fmt.Errorf("write: connection is dead (harness)")

func (s *srvConn) Write(b []byte) (int, error) {
	if atomic.LoadInt32(&s.dead) == 1 {
		atomic.StoreInt32(&s.failed, 1)
		return 0, errDead
	}
	start := time.Now()
	s.errMu.Lock()
	rec := writeRec{remaining: s.lastRemaining}
	if !s.lastSet.IsZero() {
		rec.gap = start.Sub(s.lastSet)
	}
	s.errMu.Unlock()
	n, err := s.Conn.Write(b)
	rec.dur = time.Since(start)
	s.errMu.Lock()
	if err != nil {
		rec.err = err.Error()
		if s.writeErr == "" {
			s.writeErr = err.Error()
		}
	}
	if len(s.writes) < 4096 {
		s.writes = append(s.writes, rec)
	}
	s.errMu.Unlock()
	return n, err
}

func (s *srvConn) firstWriteErr() string {
	s.errMu.Lock()
	defer s.errMu.Unlock()
	return s.writeErr
}

type client struct {
	id      int
	conn    net.Conn // our side
	srv     *srvConn // the server's side (argument of Manager.Handle)
	done    chan struct{}
	mu      sync.Mutex
	cond    *sync.Cond
	buf     []byte
	eof     bool
	scanned int    // offset up to which complete values were classified
	replies []span // the values that are not message pushes, in order
	sent    int    // commands sent so far
	cuts    []span // barrier replies, removed from what is reported
	closed  bool
	reaped  bool
}

func newClient(id int, conn net.Conn, srv *srvConn, done chan struct{}) *client {
	c := &client{id: id, conn: conn, srv: srv, done: done}
	c.cond = sync.NewCond(&c.mu)
	go c.reader()
	return c
}

func (c *client) reader() {
	tmp := make([]byte, 65536)
	for {
		n, err := c.conn.Read(tmp)
		c.mu.Lock()
		c.buf = append(c.buf, tmp[:n]...)
		for {
			end, ok := scanValue(c.buf, c.scanned, 0)
			if !ok {
				break
			}
			if !isPush(c.buf[c.scanned:end]) {
				c.replies = append(c.replies, span{c.scanned, end})
			}
			c.scanned = end
		}
		if err != nil {
			c.eof = true
		}
		c.cond.Broadcast()
		c.mu.Unlock()
		if err != nil {
			return
		}
	}
}

// waitReplies blocks until n command replies were received, the stream ended, or the timeout.
func (c *client) waitReplies(n int, d time.Duration) bool {
	deadline := time.Now().Add(d)
	t := time.AfterFunc(d, func() { c.mu.Lock(); c.cond.Broadcast(); c.mu.Unlock() })
	defer t.Stop()
	c.mu.Lock()
	defer c.mu.Unlock()
	for len(c.replies) < n && !c.eof && time.Now().Before(deadline) {
		c.cond.Wait()
	}
	return len(c.replies) >= n
}

func (c *client) waitEOF(d time.Duration) bool {
	deadline := time.Now().Add(d)
	t := time.AfterFunc(d, func() { c.mu.Lock(); c.cond.Broadcast(); c.mu.Unlock() })
	defer t.Stop()
	c.mu.Lock()
	defer c.mu.Unlock()
	for !c.eof && time.Now().Before(deadline) {
		c.cond.Wait()
	}
	return c.eof
}

// command sends one command and waits for its reply.
func (c *client) command(d time.Duration, args ...[]byte) error {
	if _, err := c.conn.Write(encodeCmd(args...)); err != nil {
		return fmt.Errorf("write: %v", err)
	}
	c.sent++
	if !c.waitReplies(c.sent, d) {
		c.mu.Lock()
		eof := c.eof
		c.mu.Unlock()
		if eof {
			return errServerClosed
		}
		return fmt.Errorf("no reply within %v", d)
	}
	return nil
}

var errServerClosed = fmt.Errorf("the server closed the connection before replying")

// barrier: an unknown command; its error reply is written after everything the server wrote to
// this connection before, so once it is read nothing earlier is still in flight.
func (c *client) barrier(d time.Duration) error {
	if err := c.command(d, []byte("verifbarrier")); err != nil {
		return err
	}
	c.mu.Lock()
	c.cuts = append(c.cuts, c.replies[c.sent-1])
	c.mu.Unlock()
	return nil
}

// silent sends a command whose reply the model does not know about (SELECT) and cuts the reply out.
func (c *client) silent(d time.Duration, args ...[]byte) error {
	if err := c.command(d, args...); err != nil {
		return err
	}
	c.mu.Lock()
	c.cuts = append(c.cuts, c.replies[c.sent-1])
	c.mu.Unlock()
	return nil
}

// received returns every byte read on the connection except the barrier replies.
func (c *client) received() []byte {
	c.mu.Lock()
	defer c.mu.Unlock()
	out := make([]byte, 0, len(c.buf))
	pos := 0
	for _, s := range c.cuts {
		out = append(out, c.buf[pos:s.a]...)
		pos = s.b
	}
	return append(out, c.buf[pos:]...)
}

// ---------------------------------------------------------------- the server side

// srvEnv is what server.Start sets up, minus signal handling and the cluster part: a listener,
// one Manager, one Handle goroutine per accepted connection.
type srvEnv struct {
	ln       net.Listener
	mgr      *server.Manager
	ctx      context.Context
	cancel   context.CancelFunc
	accepted chan net.Conn
	wg       sync.WaitGroup
}

func newSrvEnv(cfg *config.Config) (*srvEnv, error) {
	ln, err := net.Listen("tcp", "127.0.0.1:0")
	if err != nil {
		return nil, err
	}
	e := &srvEnv{ln: ln, mgr: server.NewManager(cfg), accepted: make(chan net.Conn, 64)}
	e.ctx, e.cancel = context.WithCancel(context.Background())
	go func() {
		for {
			conn, err := ln.Accept()
			if err != nil {
				close(e.accepted)
				return
			}
			e.accepted <- conn
		}
	}()
	return e, nil
}

// connect dials the listener and starts Manager.Handle for the accepted connection.
// Callers connect one at a time (dialMu), so the accepted connection is the dialled one.
var dialMu sync.Mutex

func (e *srvEnv) connect(id int) (*client, error) { return e.connectOpt(id, true) }

// connectOpt: read=false gives a client nobody reads from (no reader goroutine).
func (e *srvEnv) connectOpt(id int, read bool) (*client, error) {
	dialMu.Lock()
	defer dialMu.Unlock()
	conn, err := net.Dial("tcp", e.ln.Addr().String())
	if err != nil {
		return nil, err
	}
	var raw net.Conn
	select {
	case raw = <-e.accepted:
	case <-time.After(5 * time.Second):
		return nil, fmt.Errorf("accept timeout")
	}
	if raw == nil || raw.RemoteAddr().String() != conn.LocalAddr().String() {
		return nil, fmt.Errorf("accepted connection does not match")
	}
	srv := &srvConn{Conn: raw}
	done := make(chan struct{})
	e.wg.Add(1)
	mgr := e.mgr
	go func() {
		defer e.wg.Done()
		mgr.Handle(e.ctx, srv)
		close(done)
	}()
	if !read {
		c := &client{id: id, conn: conn, srv: srv, done: done}
		c.cond = sync.NewCond(&c.mu)
		return c, nil
	}
	return newClient(id, conn, srv, done), nil
}

func (e *srvEnv) shutdown() {
	e.cancel()
	e.ln.Close()
}

func scratchDir() string {
	d, err := os.MkdirTemp("", "pubsub-harness-")
	if err != nil {
		panic(err)
	}
	return d
}
