package main

import (
	"encoding/json"
	"fmt"
	"go/ast"
	"go/parser"
	"go/token"
	"os"
	"path/filepath"
	"sort"
	"strings"
)

func init() { subcmds["lockcheck"] = lockcheckCmd }

// lockcheck: structural facts about the pub/sub source (go/ast, conservative: a shape that is
// not recognised counts as unguarded).  The obligation behind C19_atomic_ops_linearizable:
//
//	(A) every access  X.conns / X.numSubs  (the fields of memdb.Chan; unexported, so only package
//	    memdb can touch them) occurs in a function whose body has, as top-level statements and
//	    before the access,  X.rw.Lock()  and  defer X.rw.Unlock(),  with no other X.rw.Unlock()
//	    in the function, and not inside a function literal;
//	(B) every network write in ChanMap.Send (a call  c.Write(...)) has  c.SetWriteDeadline(...)
//	    as an earlier statement of the same block — the lock is never held across an unbounded write;
//	(C) every call  m.item.Set / m.item.Delete  on the channel table of a ChanMap happens after a
//	    top-level  m.rw.Lock()  +  defer m.rw.Unlock()  of the same function, or in ChanMap.Create
//	    all of whose callers call it under that lock.
type access struct {
	File    string `json:"file"`
	Func    string `json:"func"`
	Line    int    `json:"line"`
	What    string `json:"what"`
	Guarded bool   `json:"guarded"`
	Why     string `json:"why,omitempty"`
}

type lockFacts struct {
	Accesses         []access `json:"accesses"`          // (A)
	Writes           []access `json:"writes"`            // (B)
	TableMutations   []access `json:"table_mutations"`   // (C)
	ForeignDeadlines []access `json:"foreign_deadlines"` // (D): must be empty
	ConnWriteLocks   []access `json:"conn_write_locks"`  // (E): one per write of Send
	Functions        []string `json:"functions"`         // functions touching conns/numSubs
	AllGuarded       bool     `json:"all_guarded"`
	SendFound        bool     `json:"send_found"`
	SubscribeFound   bool     `json:"subscribe_found"`
	UnSubscribeFound bool     `json:"unsubscribe_found"`
}

func selString(e ast.Expr) string {
	switch x := e.(type) {
	case *ast.Ident:
		return x.Name
	case *ast.SelectorExpr:
		return selString(x.X) + "." + x.Sel.Name
	}
	return "?"
}

// callName returns "a.b.c" for a call a.b.c(...), "" otherwise.
func callName(s ast.Stmt) (string, bool) {
	switch x := s.(type) {
	case *ast.ExprStmt:
		if c, ok := x.X.(*ast.CallExpr); ok {
			return selString(c.Fun), false
		}
	case *ast.DeferStmt:
		return selString(x.Call.Fun), true
	}
	return "", false
}

// lockedFrom returns the position after which `base` is exclusively locked for the rest of the
// function: top-level "base.rw.Lock()" followed (top level) by "defer base.rw.Unlock()", and no
// non-deferred "base.rw.Unlock()" anywhere.
func lockedFrom(fn *ast.FuncDecl, base string) (token.Pos, string) {
	lockPos := token.NoPos
	deferred := false
	for _, s := range fn.Body.List {
		name, isDefer := callName(s)
		if name == base+".rw.Lock" && !isDefer && lockPos == token.NoPos {
			lockPos = s.End()
		}
		if name == base+".rw.Unlock" && isDefer && lockPos != token.NoPos {
			deferred = true
		}
	}
	if lockPos == token.NoPos {
		return token.NoPos, "no top-level " + base + ".rw.Lock()"
	}
	if !deferred {
		return token.NoPos, "no top-level defer " + base + ".rw.Unlock() after the Lock"
	}
	early := false
	ast.Inspect(fn.Body, func(n ast.Node) bool {
		if es, ok := n.(*ast.ExprStmt); ok {
			if c, ok := es.X.(*ast.CallExpr); ok && selString(c.Fun) == base+".rw.Unlock" {
				early = true
			}
		}
		return true
	})
	if early {
		return token.NoPos, "explicit " + base + ".rw.Unlock() in the function"
	}
	return lockPos, ""
}

func callsTimeNow(e ast.Expr) bool {
	found := false
	ast.Inspect(e, func(n ast.Node) bool {
		if c, ok := n.(*ast.CallExpr); ok && selString(c.Fun) == "time.Now" {
			found = true
		}
		return true
	})
	return found
}

// freshDeadline: e calls time.Now(), or is a variable assigned in `before` (statements of the same
// block) from an expression that does.
func freshDeadline(e ast.Expr, before []ast.Stmt) bool {
	if callsTimeNow(e) {
		return true
	}
	id, ok := e.(*ast.Ident)
	if !ok {
		return false
	}
	for _, s := range before {
		if as, ok := s.(*ast.AssignStmt); ok {
			for i, l := range as.Lhs {
				if li, ok := l.(*ast.Ident); ok && li.Name == id.Name && i < len(as.Rhs) && callsTimeNow(as.Rhs[i]) {
					return true
				}
			}
		}
	}
	return false
}

func inFuncLit(fn *ast.FuncDecl, pos token.Pos) bool {
	in := false
	ast.Inspect(fn.Body, func(n ast.Node) bool {
		if fl, ok := n.(*ast.FuncLit); ok && fl.Pos() <= pos && pos < fl.End() {
			in = true
		}
		return true
	})
	return in
}

func lockcheckCmd(args []string) error {
	if len(args) != 2 {
		return fmt.Errorf("usage: lockcheck <repo> <out.json>")
	}
	dir := filepath.Join(args[0], "memdb")
	fset := token.NewFileSet()
	pkgs, err := parser.ParseDir(fset, dir, func(fi os.FileInfo) bool {
		return !strings.HasSuffix(fi.Name(), "_test.go")
	}, 0)
	if err != nil {
		return err
	}
	facts := lockFacts{AllGuarded: true}
	funcsTouching := map[string]bool{}
	type fnInfo struct {
		decl *ast.FuncDecl
		file string
	}
	var fns []fnInfo
	for _, pkg := range pkgs {
		names := make([]string, 0, len(pkg.Files))
		for n := range pkg.Files {
			names = append(names, n)
		}
		sort.Strings(names)
		for _, n := range names {
			for _, d := range pkg.Files[n].Decls {
				if fd, ok := d.(*ast.FuncDecl); ok && fd.Body != nil {
					fns = append(fns, fnInfo{fd, filepath.Base(n)})
				}
			}
		}
	}
	fname := func(fd *ast.FuncDecl) string {
		if fd.Recv != nil && len(fd.Recv.List) == 1 {
			t := fd.Recv.List[0].Type
			if st, ok := t.(*ast.StarExpr); ok {
				t = st.X
			}
			return selString(t) + "." + fd.Name.Name
		}
		return fd.Name.Name
	}
	recvName := func(fd *ast.FuncDecl) string {
		if fd.Recv != nil && len(fd.Recv.List) == 1 && len(fd.Recv.List[0].Names) == 1 {
			return fd.Recv.List[0].Names[0].Name
		}
		return ""
	}
	// callers of ChanMap.Create under the table lock?
	createCallersGuarded := true
	createCallers := 0
	for _, fi := range fns {
		fd := fi.decl
		ast.Inspect(fd.Body, func(n ast.Node) bool {
			c, ok := n.(*ast.CallExpr)
			if !ok {
				return true
			}
			se, ok := c.Fun.(*ast.SelectorExpr)
			if !ok || se.Sel.Name != "Create" {
				return true
			}
			base := selString(se.X)
			if base != recvName(fd) || !strings.HasPrefix(fname(fd), "ChanMap.") {
				return true
			}
			createCallers++
			from, _ := lockedFrom(fd, base)
			if from == token.NoPos || c.Pos() < from || inFuncLit(fd, c.Pos()) {
				createCallersGuarded = false
			}
			return true
		})
	}
	for _, fi := range fns {
		fd := fi.decl
		name := fname(fd)
		switch name {
		case "ChanMap.Send":
			facts.SendFound = true
		case "ChanMap.Subscribe":
			facts.SubscribeFound = true
		case "ChanMap.UnSubscribe":
			facts.UnSubscribeFound = true
		}
		// (A)
		ast.Inspect(fd.Body, func(n ast.Node) bool {
			se, ok := n.(*ast.SelectorExpr)
			if !ok || (se.Sel.Name != "conns" && se.Sel.Name != "numSubs") {
				return true
			}
			base := selString(se.X)
			a := access{File: fi.file, Func: name, Line: fset.Position(se.Pos()).Line, What: base + "." + se.Sel.Name}
			from, why := lockedFrom(fd, base)
			switch {
			case from == token.NoPos:
				a.Why = why
			case se.Pos() < from:
				a.Why = "access before the Lock"
			case inFuncLit(fd, se.Pos()):
				a.Why = "access inside a function literal"
			default:
				a.Guarded = true
			}
			if !a.Guarded {
				facts.AllGuarded = false
			}
			funcsTouching[name] = true
			facts.Accesses = append(facts.Accesses, a)
			return true
		})
		// (B) writes in Send
		if name == "ChanMap.Send" {
			var walk func(list []ast.Stmt)
			checkExpr := func(list []ast.Stmt, idx int, n ast.Node) {
				ast.Inspect(n, func(m ast.Node) bool {
					c, ok := m.(*ast.CallExpr)
					if !ok {
						return true
					}
					se, ok := c.Fun.(*ast.SelectorExpr)
					if !ok || se.Sel.Name != "Write" {
						return true
					}
					base := selString(se.X)
					a := access{File: fi.file, Func: name, Line: fset.Position(c.Pos()).Line, What: base + ".Write"}
					stale := false
					for j := 0; j < idx; j++ {
						ast.Inspect(list[j], func(k ast.Node) bool {
							if c2, ok := k.(*ast.CallExpr); ok && selString(c2.Fun) == base+".SetWriteDeadline" && len(c2.Args) == 1 {
								// the argument must not be the zero time (which removes the deadline)
								if cl, ok := c2.Args[0].(*ast.CompositeLit); !ok || selString(cl.Type) != "time.Time" {
									// and it must be computed for this write: an expression calling time.Now(),
									// or a variable assigned from one in the same block (the loop body)
									if freshDeadline(c2.Args[0], list[:j]) {
										a.Guarded = true
									} else {
										stale = true
									}
								}
							}
							return true
						})
					}
					// the last deadline call before the write must be the one that sets it
					for j := idx - 1; j >= 0; j-- {
						found := false
						ast.Inspect(list[j], func(k ast.Node) bool {
							if c2, ok := k.(*ast.CallExpr); ok && selString(c2.Fun) == base+".SetWriteDeadline" && len(c2.Args) == 1 {
								found = true
								if cl, ok := c2.Args[0].(*ast.CompositeLit); ok && selString(cl.Type) == "time.Time" {
									a.Guarded = false
								}
							}
							return true
						})
						if found {
							break
						}
					}
					if stale {
						a.Guarded = false
					}
					if !a.Guarded && stale {
						a.Why = base + ".SetWriteDeadline gets a deadline that is not computed from time.Now() for this write (same block): subscribers visited after a slow one share an expired deadline"
						facts.AllGuarded = false
					} else if !a.Guarded {
						a.Why = "no " + base + ".SetWriteDeadline(<non-zero>) before the write in the same block"
						facts.AllGuarded = false
					}
					facts.Writes = append(facts.Writes, a)
					return true
				})
			}
			walk = func(list []ast.Stmt) {
				for i, s := range list {
					switch x := s.(type) {
					case *ast.BlockStmt:
						walk(x.List)
					case *ast.ForStmt:
						walk(x.Body.List)
					case *ast.RangeStmt:
						walk(x.Body.List)
					case *ast.IfStmt:
						checkExpr(list, i, x.Cond)
						walk(x.Body.List)
						if eb, ok := x.Else.(*ast.BlockStmt); ok {
							walk(eb.List)
						}
					default:
						checkExpr(list, i, s)
					}
				}
			}
			walk(fd.Body.List)
		}
		// (E) per-connection serialisation of deadline + write + clear in Send
		if name == "ChanMap.Send" {
			recv := recvName(fd)
			var walkE func(list []ast.Stmt)
			walkE = func(list []ast.Stmt) {
				for i, st := range list {
					switch x := st.(type) {
					case *ast.BlockStmt:
						walkE(x.List)
						continue
					case *ast.ForStmt:
						walkE(x.Body.List)
						continue
					case *ast.RangeStmt:
						walkE(x.Body.List)
						continue
					case *ast.IfStmt:
						walkE(x.Body.List)
						if eb, ok := x.Else.(*ast.BlockStmt); ok {
							walkE(eb.List)
						}
					}
					// a statement of this block that writes to a connection
					base := ""
					ast.Inspect(st, func(n ast.Node) bool {
						if _, ok := n.(*ast.BlockStmt); ok {
							return false
						}
						if c, ok := n.(*ast.CallExpr); ok {
							if se, ok := c.Fun.(*ast.SelectorExpr); ok && se.Sel.Name == "Write" {
								base = selString(se.X)
							}
						}
						return true
					})
					if base == "" {
						continue
					}
					a := access{File: fi.file, Func: name, Line: fset.Position(st.Pos()).Line, What: "connWriteLock(" + base + ") around deadline+write+clear"}
					// wl := recv.connWriteLock(base) ; wl.Lock() before the first SetWriteDeadline of base
					lockVar, lockedAt, firstSet, lastSet, unlockedAt := "", -1, -1, -1, -1
					for j, t := range list {
						if as, ok := t.(*ast.AssignStmt); ok && len(as.Lhs) == 1 && len(as.Rhs) == 1 {
							if c, ok := as.Rhs[0].(*ast.CallExpr); ok && selString(c.Fun) == recv+".connWriteLock" && len(c.Args) == 1 && selString(c.Args[0]) == base {
								if id, ok := as.Lhs[0].(*ast.Ident); ok {
									lockVar = id.Name
								}
							}
						}
						nm, isDefer := callName(t)
						if lockVar != "" && nm == lockVar+".Lock" && !isDefer && lockedAt < 0 {
							lockedAt = j
						}
						if lockVar != "" && nm == lockVar+".Unlock" && !isDefer {
							unlockedAt = j
						}
						ast.Inspect(t, func(n ast.Node) bool {
							if c, ok := n.(*ast.CallExpr); ok && selString(c.Fun) == base+".SetWriteDeadline" {
								if firstSet < 0 {
									firstSet = j
								}
								lastSet = j
							}
							return true
						})
					}
					switch {
					case lockVar == "" || lockedAt < 0:
						a.Why = "no wl := " + recv + ".connWriteLock(" + base + "); wl.Lock() in the block of the write"
					case firstSet < 0 || !(lockedAt < firstSet && firstSet < i && i <= lastSet):
						a.Why = "the lock does not enclose SetWriteDeadline, Write and the clearing SetWriteDeadline in this order"
					case unlockedAt < lastSet:
						a.Why = "wl.Unlock() does not come after the deadline is cleared"
					default:
						a.Guarded = true
					}
					if !a.Guarded {
						facts.AllGuarded = false
					}
					facts.ConnWriteLocks = append(facts.ConnWriteLocks, a)
				}
			}
			walkE(fd.Body.List)
		}
		// (C) mutations of the channel table
		if strings.HasPrefix(name, "ChanMap.") {
			recv := recvName(fd)
			ast.Inspect(fd.Body, func(n ast.Node) bool {
				c, ok := n.(*ast.CallExpr)
				if !ok {
					return true
				}
				fn := selString(c.Fun)
				if fn != recv+".item.Set" && fn != recv+".item.Delete" {
					return true
				}
				a := access{File: fi.file, Func: name, Line: fset.Position(c.Pos()).Line, What: fn}
				from, why := lockedFrom(fd, recv)
				switch {
				case name == "ChanMap.Create":
					a.Guarded = createCallers > 0 && createCallersGuarded
					if !a.Guarded {
						a.Why = "a caller of Create does not hold the table lock"
					}
				case from == token.NoPos:
					a.Why = why
				case c.Pos() < from:
					a.Why = "mutation before the Lock"
				case inFuncLit(fd, c.Pos()):
					a.Why = "mutation inside a function literal"
				default:
					a.Guarded = true
				}
				if !a.Guarded {
					facts.AllGuarded = false
				}
				facts.TableMutations = append(facts.TableMutations, a)
				return true
			})
		}
	}
	// (D) nobody else touches write deadlines of client connections
	for _, sub := range []string{"memdb", "server", "resp"} {
		fs2 := token.NewFileSet()
		pk, err := parser.ParseDir(fs2, filepath.Join(args[0], sub), func(fi os.FileInfo) bool {
			return !strings.HasSuffix(fi.Name(), "_test.go")
		}, 0)
		if err != nil {
			return err
		}
		for _, pkg := range pk {
			names := make([]string, 0, len(pkg.Files))
			for n := range pkg.Files {
				names = append(names, n)
			}
			sort.Strings(names)
			for _, n := range names {
				for _, d := range pkg.Files[n].Decls {
					fd, ok := d.(*ast.FuncDecl)
					if !ok || fd.Body == nil {
						continue
					}
					fn := fname(fd)
					if sub == "memdb" && fn == "ChanMap.Send" {
						continue
					}
					ast.Inspect(fd.Body, func(m ast.Node) bool {
						c, ok := m.(*ast.CallExpr)
						if !ok {
							return true
						}
						se, ok := c.Fun.(*ast.SelectorExpr)
						if !ok || (se.Sel.Name != "SetWriteDeadline" && se.Sel.Name != "SetDeadline") {
							return true
						}
						facts.ForeignDeadlines = append(facts.ForeignDeadlines, access{
							File: sub + "/" + filepath.Base(n), Func: fn, Line: fs2.Position(c.Pos()).Line,
							What: selString(c.Fun), Guarded: false,
							Why: "sets or clears the write deadline of a connection outside ChanMap.Send: if the connection is a subscriber this can take away (or extend) the deadline a PUBLISH relies on",
						})
						facts.AllGuarded = false
						return true
					})
				}
			}
		}
	}
	for n := range funcsTouching {
		facts.Functions = append(facts.Functions, n)
	}
	sort.Strings(facts.Functions)
	if !facts.SendFound || !facts.SubscribeFound || !facts.UnSubscribeFound || len(facts.Accesses) == 0 || len(facts.Writes) == 0 || len(facts.ConnWriteLocks) == 0 {
		// the code no longer has the shape the model describes
		facts.AllGuarded = false
	}
	b, _ := json.MarshalIndent(facts, "", " ")
	return os.WriteFile(args[1], b, 0644)
}
