package main

import (
	"fmt"
	"net"
	"os"
	"strconv"
	"strings"
	"time"

	"github.com/innovationb1ue/RedisGO/memdb"
)

func init() { subcmds["retire"] = retireCmd }

// retireCmd <deadline_ms> <rounds> <trace> <diag>
//
// A SUBSCRIBE that arrives while a PUBLISH is dropping the channel's last subscriber.  Per round
// (fresh Manager), write deadline of Send = <deadline_ms> (hook H5):
//
//	connection 1   subscribes to the channel over net.Pipe and never reads again (the only subscriber)
//	connection 3   PUBLISH ch m0        -> Send blocks on connection 1 until the deadline, then drops it
//	connection 2   SUBSCRIBE ch, sent a jitter (varied per round, inside the deadline) after the PUBLISH
//	connection 3   PUBLISH ch hello     -> must reach connection 2 and reply 1
//
// The two overlapping commands have two legal orders; the trace lists them in the order the first
// PUBLISH reply shows (0: the SUBSCRIBE took effect after it; 1: before it, then connection 2 also
// received m0).  Verdict by `pubsubrun seq`.  <diag>: W lines as for `stall`.
func retireCmd(args []string) error {
	if len(args) != 4 {
		return fmt.Errorf("usage: retire <deadline_ms> <rounds> <trace> <diag>")
	}
	dms, _ := strconv.Atoi(args[0])
	rounds, _ := strconv.Atoi(args[1])
	out, err := os.Create(args[2])
	if err != nil {
		return err
	}
	defer out.Close()
	diag, err := os.Create(args[3])
	if err != nil {
		return err
	}
	defer diag.Close()
	dir := scratchDir()
	defer os.RemoveAll(dir)
	cfg := setupServer(dir)
	D := time.Duration(dms) * time.Millisecond
	old := memdb.VerifSetPubSubWriteTimeout(D)
	defer memdb.VerifSetPubSubWriteTimeout(old)
	ms := func(d time.Duration) string {
		return strconv.FormatFloat(float64(d)/float64(time.Millisecond), 'f', 2, 64)
	}
	jitters := []int{10, 30, 50, 70, 20, 40, 60, 80, 15, 45, 75, 5}

	for r := 0; r < rounds; r++ {
		fmt.Fprintf(out, "CASE retire%d\n", r)
		out.Sync()
		env, err := newSrvEnv(cfg)
		if err != nil {
			return err
		}
		ch := []byte(fmt.Sprintf("retire-%d", r))
		fail := ""
		// the stalled, only subscriber
		cli, srv := net.Pipe()
		stalledSrv := &srvConn{Conn: srv}
		go env.mgr.Handle(env.ctx, stalledSrv)
		go cli.Write(encodeCmd([]byte("SUBSCRIBE"), ch))
		var stalledBuf []byte
		tmp := make([]byte, 256)
		cli.SetReadDeadline(time.Now().Add(5 * time.Second))
		for {
			if _, ok := scanValue(stalledBuf, 0, 0); ok {
				break
			}
			n, err := cli.Read(tmp)
			stalledBuf = append(stalledBuf, tmp[:n]...)
			if err != nil {
				fail = fmt.Sprintf("stalled subscriber got no confirmation: %v", err)
				break
			}
		}
		var b, pub *client
		if fail == "" {
			if b, err = env.connect(2); err != nil {
				fail = fmt.Sprintf("connect: %v", err)
			}
		}
		if fail == "" {
			if pub, err = env.connect(3); err != nil {
				fail = fmt.Sprintf("connect: %v", err)
			}
		}
		m0, hello := []byte("m0"), []byte("hello")
		first := -1
		if fail == "" {
			jitter := time.Duration(jitters[r%len(jitters)]) * D / 100
			pubErr := make(chan error, 1)
			go func() { pubErr <- pub.command(D+10*time.Second, []byte("PUBLISH"), ch, m0) }()
			time.Sleep(jitter)
			if err := b.command(D+10*time.Second, []byte("SUBSCRIBE"), ch); err != nil {
				fail = fmt.Sprintf("SUBSCRIBE on 2 (sent %v after the PUBLISH): %v", jitter, err)
			}
			if err := <-pubErr; err != nil && fail == "" {
				fail = fmt.Sprintf("PUBLISH m0: %v", err)
			}
			if fail == "" {
				pub.mu.Lock()
				sp := pub.replies[0]
				v := string(pub.buf[sp.a:sp.b])
				pub.mu.Unlock()
				if v == ":1\r\n" {
					first = 1
				} else {
					first = 0
				}
			}
		}
		fmt.Fprintf(out, "OP S 1 %s\n", hx(ch))
		if first == 1 {
			fmt.Fprintf(out, "OP S 2 %s\n", hx(ch))
		}
		fmt.Fprintf(out, "OP K 1\n")
		fmt.Fprintf(out, "OP P 3 %s %s\n", hx(ch), hx(m0))
		if first != 1 {
			fmt.Fprintf(out, "OP S 2 %s\n", hx(ch))
		}
		if fail == "" {
			fmt.Fprintf(out, "OP P 3 %s %s\n", hx(ch), hx(hello))
			if err := pub.command(D+10*time.Second, []byte("PUBLISH"), ch, hello); err != nil {
				fail = fmt.Sprintf("PUBLISH hello: %v", err)
			}
		}
		if fail == "" {
			if err := b.barrier(replyTimeout); err != nil {
				b.closed = true // dropped by the server: the comparison shows what it lacks
			}
			if err := pub.barrier(replyTimeout); err != nil {
				fail = fmt.Sprintf("publisher barrier: %v", err)
			}
		}
		fmt.Fprintf(out, "RECV 1 %s\n", hx(stalledBuf))
		for _, c := range []*client{b, pub} {
			if c == nil {
				continue
			}
			fmt.Fprintf(out, "RECV %d %s\n", c.id, hx(c.received()))
			for _, w := range c.srv.writeLog() {
				e := "-"
				if w.err != "" {
					e = strings.ReplaceAll(w.err, " ", "_")
				}
				fmt.Fprintf(diag, "W retire%d %d %s %s %s %s\n", r, c.id, ms(w.remaining), ms(w.gap), ms(w.dur), e)
			}
		}
		if fail != "" {
			fmt.Fprintf(out, "ERR %s\n", strings.ReplaceAll(fail, "\n", " "))
		}
		fmt.Fprintf(out, "END\n")
		out.Sync()
		for _, c := range []*client{b, pub} {
			if c != nil {
				c.conn.Close()
			}
		}
		cli.Close()
		env.shutdown()
	}
	return nil
}
