package main

import (
	"bufio"
	"fmt"
	"net"
	"os"
	"runtime"
	"strconv"
	"strings"
	"sync"
	"sync/atomic"
	"time"

	"github.com/innovationb1ue/RedisGO/memdb"
)

func init() { subcmds["conc"] = concCmd }

// write deadline of Send in the runs with a subscriber that never reads (hook H5)
const stallDeadline = time.Second

// concCmd: several publishers, several subscribers that come and go (orderly and abruptly),
// optionally one subscriber that never reads.  Writes what every party observed, with logical
// time stamps taken from one atomic counter; checks/c19.py decides (after decoding the streams
// with the extracted decoder).
//
//	CHAN <idx> <hex>
//	PUB <k> <seq> <chan idx> <t_inv> <t_res> <reply or -1> <payload hex>
//	CONN <id> normal|stalled
//	EV <id> SUB <chan idx> <t_send> <t_ack>       one SUBSCRIBE command and its confirmation
//	EV <id> SUBM <idx,idx,...> <t_send> <t_ack>    one SUBSCRIBE command naming several channels (with repeats)
//	EV <id> UNSUB <chan idx> <t_before> <t_after>  ChanMap.UnSubscribe (API), no reply
//	EV <id> BARRIER <t>                            one unknown command and its error reply
//	EV <id> DROPPED                                the server dropped the connection after a write to it timed out (stall mode only)
//	EV <id> END graceful|abrupt|stalled <t_end> <t_closed>
//	STREAM <id> <hex>
//	FAIL <text>
//	DONE
func concCmd(args []string) error {
	if len(args) != 8 {
		return fmt.Errorf("usage: conc <seed> <pubs> <subs> <msgs> <chans> <stall 0|1> <watchdog_s> <out>")
	}
	iv := make([]int, 7)
	for i := 0; i < 7; i++ {
		v, err := strconv.Atoi(args[i])
		if err != nil {
			return err
		}
		iv[i] = v
	}
	seed, nPub, nSub, nMsg, nChan, stall, watchdog := iv[0], iv[1], iv[2], iv[3], iv[4], iv[5] == 1, iv[6]
	f, err := os.Create(args[7])
	if err != nil {
		return err
	}
	defer f.Close()
	w := bufio.NewWriterSize(f, 1<<20)
	defer w.Flush()
	var outMu sync.Mutex
	emit := func(format string, a ...interface{}) {
		outMu.Lock()
		fmt.Fprintf(w, format+"\n", a...)
		outMu.Unlock()
	}

	dir := scratchDir()
	defer os.RemoveAll(dir)
	cfg := setupServer(dir)
	env, err := newSrvEnv(cfg)
	if err != nil {
		return err
	}
	if stall {
		memdb.VerifSetPubSubWriteTimeout(stallDeadline)
	}
	subs := env.mgr.DBs[0].SubChans

	var tick int64
	now := func() int64 { return atomic.AddInt64(&tick, 1) }
	var connID int64
	newID := func() int { return int(atomic.AddInt64(&connID, 1)) }

	chans := make([][]byte, nChan)
	for i := range chans {
		chans[i] = []byte(fmt.Sprintf("ch\r\n%d\x00", i))
		emit("CHAN %d %s", i, hx(chans[i]))
	}

	var pubsDone int32
	var wgPub, wgSub sync.WaitGroup

	// ---- the subscriber that never reads (over net.Pipe: the first write to it blocks) ----
	var stalledCli net.Conn
	if stall {
		cli, srv := net.Pipe()
		stalledCli = cli
		go env.mgr.Handle(env.ctx, srv)
		id := newID()
		emit("CONN %d stalled", id)
		ts := now()
		go cli.Write(encodeCmd([]byte("SUBSCRIBE"), chans[0]))
		buf := make([]byte, 0, 256)
		tmp := make([]byte, 256)
		cli.SetReadDeadline(time.Now().Add(5 * time.Second))
		for {
			if _, ok := scanValue(buf, 0, 0); ok {
				break
			}
			n, err := cli.Read(tmp)
			buf = append(buf, tmp[:n]...)
			if err != nil {
				emit("FAIL stalled subscriber got no confirmation: %v", err)
				break
			}
		}
		emit("EV %d SUB 0 %d %d", id, ts, now())
		emit("EV %d END stalled 0 0", id)
		emit("STREAM %d %s", id, hx(buf))
	}

	// ---- subscribers ----
	for s := 0; s < nSub; s++ {
		wgSub.Add(1)
		go func(s int) {
			defer wgSub.Done()
			r := newRng(uint64(seed)*7919 + uint64(s)*104729 + 17)
			for round := 0; round < 10000; round++ {
				if atomic.LoadInt32(&pubsDone) == 1 && round >= 2 {
					return
				}
				id := newID()
				c, err := env.connect(id)
				if err != nil {
					emit("FAIL subscriber connect: %v", err)
					return
				}
				emit("CONN %d normal", id)
				mine := map[int]bool{}
				// With the shortened write deadline (stall mode) the server may legitimately drop this
				// subscriber when a write to it took longer than the deadline (machine under load):
				// that is what the deadline is for.  Recorded, not a failure; no claim is made about what
				// the connection should have received after its last acknowledged command.
				cmdFailed := func(what string, err error) {
					if stall && err == errServerClosed && strings.Contains(c.srv.firstWriteErr(), "i/o timeout") {
						// ... provided the server had really allowed (about) the whole deadline for the write that failed
						fresh := false
						for _, w := range c.srv.writeLog() {
							if w.err != "" {
								fresh = w.remaining >= stallDeadline/2
								break
							}
						}
						if fresh {
							emit("EV %d DROPPED", id)
							return
						}
						emit("FAIL conn %d %s: dropped by a write whose deadline had (nearly) expired when it was set: the subscriber was not given the write timeout", id, what)
						return
					}
					emit("FAIL conn %d %s: %v (first server-side write error: %q)", id, what, err, c.srv.firstWriteErr())
				}
				subscribe := func(ci int) bool {
					ts := now()
					if err := c.command(10*time.Second, []byte("SUBSCRIBE"), chans[ci]); err != nil {
						cmdFailed("SUBSCRIBE", err)
						return false
					}
					emit("EV %d SUB %d %d %d", id, ci, ts, now())
					mine[ci] = true
					return true
				}
				// one SUBSCRIBE command naming several channels, the first one again at the end (a a / a b a)
				subscribeMany := func(cis []int) bool {
					args := [][]byte{[]byte("SUBSCRIBE")}
					names := make([]string, 0, len(cis))
					for _, ci := range cis {
						args = append(args, chans[ci])
						names = append(names, strconv.Itoa(ci))
					}
					ts := now()
					if err := c.command(10*time.Second, args...); err != nil {
						cmdFailed("SUBSCRIBE", err)
						return false
					}
					emit("EV %d SUBM %s %d %d", id, strings.Join(names, ","), ts, now())
					for _, ci := range cis {
						mine[ci] = true
					}
					return true
				}
				ok := true
				if r.chance(1, 3) {
					a := r.intn(nChan)
					if r.chance(1, 2) {
						ok = subscribeMany([]int{a, a})
					} else {
						ok = subscribeMany([]int{a, r.intn(nChan), a})
					}
				}
				for k := 1 + r.intn(nChan); k > 0 && ok; k-- {
					ok = subscribe(r.intn(nChan)) // a repeated SUBSCRIBE of the same channel happens on purpose
				}
				for step := r.intn(4); step > 0 && ok; step-- {
					time.Sleep(time.Duration(1+r.intn(8)) * time.Millisecond)
					ci := r.intn(nChan)
					if mine[ci] && r.chance(1, 2) {
						t1 := now()
						sid := subs.Subscribe(string(chans[ci]), c.srv)
						subs.UnSubscribe(string(chans[ci]), sid)
						t2 := now()
						emit("EV %d UNSUB %d %d %d", id, ci, t1, t2)
						delete(mine, ci)
						if err := c.command(10*time.Second, []byte("verifbarrier")); err != nil {
							cmdFailed("barrier", err)
							ok = false
							break
						}
						emit("EV %d BARRIER %d", id, now())
					} else {
						ok = subscribe(ci)
					}
				}
				time.Sleep(time.Duration(1+r.intn(15)) * time.Millisecond)
				kind := "abrupt"
				tEnd := now()
				if ok && r.chance(1, 2) {
					kind = "graceful"
					if err := c.command(10*time.Second, []byte("verifbarrier")); err != nil {
						cmdFailed("final barrier", err)
						kind = "abrupt"
					} else {
						emit("EV %d BARRIER %d", id, now())
					}
				}
				c.conn.Close()
				select {
				case <-c.done:
				case <-time.After(10 * time.Second):
					emit("FAIL conn %d: Manager.Handle did not return after the client closed", id)
				}
				emit("EV %d END %s %d %d", id, kind, tEnd, now())
				c.waitEOF(2 * time.Second)
				c.mu.Lock()
				emit("STREAM %d %s", id, hx(c.buf))
				c.mu.Unlock()
			}
		}(s)
	}

	// ---- publishers ----
	for k := 0; k < nPub; k++ {
		wgPub.Add(1)
		go func(k int) {
			defer wgPub.Done()
			r := newRng(uint64(seed)*15485863 + uint64(k)*32452843 + 5)
			c, err := env.connect(newID())
			if err != nil {
				emit("FAIL publisher connect: %v", err)
				return
			}
			defer c.conn.Close()
			junk := [][]byte{{}, []byte("\r\n"), {0}, {0xff, 0xfe}, []byte("+OK\r\n"), []byte("$5\r\n")}
			for seq := 0; seq < nMsg; seq++ {
				ci := r.intn(nChan)
				payload := append([]byte(fmt.Sprintf("%d:%d:", k, seq)), junk[r.intn(len(junk))]...)
				t1 := now()
				err := c.command(20*time.Second, []byte("PUBLISH"), chans[ci], payload)
				t2 := now()
				n := -1
				if err == nil {
					c.mu.Lock()
					sp := c.replies[c.sent-1]
					v := c.buf[sp.a:sp.b]
					c.mu.Unlock()
					if len(v) > 3 && v[0] == ':' {
						if x, e := strconv.Atoi(string(v[1 : len(v)-2])); e == nil {
							n = x
						}
					}
				}
				emit("PUB %d %d %d %d %d %d %s", k, seq, ci, t1, t2, n, hx(payload))
				if err != nil {
					emit("FAIL publisher %d message %d: %v", k, seq, err)
					return
				}
				if r.chance(1, 8) {
					runtime.Gosched()
				}
			}
		}(k)
	}

	fin := make(chan struct{})
	go func() {
		wgPub.Wait()
		atomic.StoreInt32(&pubsDone, 1)
		wgSub.Wait()
		close(fin)
	}()
	select {
	case <-fin:
	case <-time.After(time.Duration(watchdog) * time.Second):
		emit("FAIL watchdog: publishers/subscribers not finished after %d s (a publisher is blocked)", watchdog)
		w.Flush()
		os.Exit(4)
	}
	if stalledCli != nil {
		stalledCli.Close()
	}
	env.shutdown()
	emit("DONE")
	return nil
}
