package main

// Two-life scenarios: crash image -> real wal.Open + ReadAll in write mode (after Repair when the
// tail is torn) -> real Saves appended past every stale sector the crash left behind -> Close ->
// reopen + ReadAll.  The directory after the second life is written to the "extra" file so that
// the model reads the same bytes, together with the operations that were appended.

import (
	"bufio"
	"encoding/hex"
	"fmt"
	"os"
	"path/filepath"
	"strconv"
	"strings"

	"go.etcd.io/etcd/raft/v3/raftpb"
	"go.etcd.io/etcd/server/v3/storage/wal"
	"go.etcd.io/etcd/server/v3/storage/wal/walpb"
)

// deterministic payload of the i-th appended entry
func lifePayload(seed string, i, n int) []byte {
	r := newRng(uint64(len(seed))*7919 + uint64(i)*104729 + 17)
	for _, c := range []byte(seed) {
		r.s = r.s*31 + uint64(c)
	}
	b := r.bytes(n)
	for j := range b {
		if b[j] == 0 {
			b[j] = 1 // appended data never looks like unwritten space
		}
	}
	return b
}

// L <cid> <did> <si> <st> <synced> <sectors> <nsaves> <psize>
func observeTwoLife(root string, ow, xw *bufio.Writer, wid string, fs []string, files []fileEnt) error {
	cid := fs[1]
	synced, _ := strconv.Atoi(fs[5])
	lost := map[int]bool{}
	if fs[6] != "-" {
		for _, s := range splitComma(fs[6]) {
			k, _ := strconv.Atoi(s)
			lost[k] = true
		}
	}
	nsaves, _ := strconv.Atoi(fs[7])
	psize, _ := strconv.Atoi(fs[8])
	img := cloneFiles(files)
	if n := len(img); n > 0 {
		img[n-1].data = crashImage(img[n-1].data, synced, lost)
	}
	dir, err := writeDir(root, img)
	if err != nil {
		return err
	}
	defer os.RemoveAll(dir)
	snap := walpb.Snapshot{Index: unhx(fs[3]), Term: unhx(fs[4])}

	// ---- life 1: open for append (repairing a torn tail first)
	open1 := func() (w *wal.WAL, res string, hs raftpb.HardState, ents []raftpb.Entry, bad bool) {
		w, err := wal.Open(lg, dir, snap)
		if err != nil {
			return nil, "err:open", hs, nil, true
		}
		w.SetUnsafeNoFsync()
		func() {
			defer func() {
				if e := recover(); e != nil {
					res, bad = "err:panic", true
				}
			}()
			meta, h, es, err := w.ReadAll()
			if err != nil {
				res, bad = "err:"+classify(err), true
				return
			}
			hs, ents = h, es
			res = resStr(meta, h, es, true)
		}()
		if bad {
			func() { defer func() { recover() }(); w.Close() }()
			return nil, res, hs, nil, true
		}
		return w, res, hs, ents, false
	}
	w, r1, hs, ents, bad := open1()
	rep := "-"
	if bad {
		ok, _ := safeRepair(dir)
		rep = "0"
		if ok {
			rep = "1"
		}
		w, r1, hs, ents, bad = open1()
	}
	if bad {
		fmt.Fprintf(ow, "R %s life1=%s repair=%s steps=- life2=-\n", cid, r1, rep)
		return nil
	}
	// ---- appended saves
	last := uint64(0)
	if len(ents) > 0 {
		last = ents[len(ents)-1].Index
	}
	term := hs.Term
	if term == 0 {
		term = 1
	}
	var opLines []string
	var steps []string
	emitDirX := func(xid string, fl []fileEnt) {
		fmt.Fprintf(xw, "DIR %s %s -1 %d\n", xid, wid, len(fl))
		for _, f := range fl {
			fmt.Fprintf(xw, "F %s %s %s %s\n", xid, hx(f.seq), hx(f.index), hex.EncodeToString(f.data))
		}
		fmt.Fprintf(xw, "ENDDIR %s\n", xid)
	}
	for i := 0; i < nsaves; i++ {
		last++
		e := raftpb.Entry{Term: term, Index: last, Data: lifePayload(cid, i, psize)}
		st := raftpb.HardState{Term: term, Vote: hs.Vote, Commit: hs.Commit}
		if err := w.Save(st, []raftpb.Entry{e}); err != nil {
			return fmt.Errorf("second-life Save: %v", err)
		}
		opLines = append(opLines, fmt.Sprintf("OPSAVE %s %s %s %s 1 0 %s %s %s", wid, hx(st.Term), hx(st.Vote), hx(st.Commit),
			hx(e.Term), hx(e.Index), optTok(e.Data)))
		// the Save has returned (entries: synced): what a restart at this instant reads
		cur, err := readWalDir(dir)
		if err != nil {
			return err
		}
		emitDirX(fmt.Sprintf("x%s_%d", cid, i), cur)
		sd, err := writeDir(root, cur)
		if err != nil {
			return err
		}
		r, _, _ := safeReadAll(sd, snap)
		os.RemoveAll(sd)
		steps = append(steps, shortRes(r))
	}
	if err := w.Close(); err != nil {
		return err
	}
	// ---- the directory after the second life, for the model
	final, err := readWalDir(dir)
	if err != nil {
		return err
	}
	xid := "x" + cid
	emitDirX(xid, final)
	fmt.Fprintf(xw, "L2 %s %s %s %s %s %s %s %d\n", cid, fs[2], xid, fs[3], fs[4], fs[5], fs[6], len(opLines))
	for _, l := range opLines {
		fmt.Fprintf(xw, "L2OP %s %s\n", cid, l)
	}
	fmt.Fprintf(xw, "L2END %s\n", cid)
	// ---- life 2: reopen
	line, err := observeDir(root, final, snap.Index, snap.Term)
	if err != nil {
		return err
	}
	fmt.Fprintf(ow, "R %s life1=%s repair=%s steps=%s life2=%s\n", cid, r1, rep, strings.Join(steps, "|"), line)
	return nil
}

func splitComma(s string) []string {
	var out []string
	cur := ""
	for _, c := range s {
		if c == ',' {
			out = append(out, cur)
			cur = ""
		} else {
			cur += string(c)
		}
	}
	return append(out, cur)
}

var _ = filepath.Join

// short form of a ReadAll result: ok/<entries>/<last index>/<md5 of the entries>, or the error
func shortRes(r string) string {
	if !strings.HasPrefix(r, "ok,") {
		return r
	}
	var n, last, md string
	for _, kv := range strings.Split(r, ",") {
		switch {
		case strings.HasPrefix(kv, "n="):
			n = kv[2:]
		case strings.HasPrefix(kv, "last="):
			last = kv[5:]
		case strings.HasPrefix(kv, "md5="):
			md = kv[4:]
		}
	}
	return "ok/" + n + "/" + last + "/" + md
}
