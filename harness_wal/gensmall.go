package main

// The "small script" family: many short write scripts (1..7 operations, small payloads, small
// segment sizes so that cuts, sector boundaries and the preallocated tail all occur within a
// few hundred bytes), each with an enumerated set of crash images and single-byte corruptions.
// Small scripts come first so that a disagreement is reported on a small input.

import (
	"bufio"
	"fmt"
	"os"
	"sort"
	"strconv"
	"strings"

	"go.etcd.io/etcd/raft/v3/raftpb"
	"go.etcd.io/etcd/server/v3/storage/wal/walpb"
)

func smallPayload(r *rng) []byte {
	var n int
	switch k := r.intn(100); {
	case k < 6:
		return nil
	case k < 12:
		return []byte{}
	case k < 70:
		n = 1 + r.intn(24)
	case k < 82:
		n = 100 + r.intn(160)
	case k < 94:
		n = []int{420, 470, 490, 500, 512, 520}[r.intn(6)] + r.intn(24)
	default:
		n = 1000 + r.intn(120)
	}
	if r.chance(1, 16) {
		return make([]byte, n) // all zero: legitimately zero sector chunks
	}
	b := r.bytes(n)
	if r.chance(1, 8) && n > 600 {
		for i := 20; i < 20+560 && i < n; i++ {
			b[i] = 0
		}
	}
	return b
}

// shapes of entry-less saves generated, for the evidence
var stateOnlyShapes = map[string]int{}

func genSmallOps(r *rng, nops int) (ops []genOp, snaps []walpb.Snapshot) {
	var lastIndex, vote, commit, snapIndex uint64
	term := uint64(1)
	termOf := map[uint64]uint64{}
	for len(ops) < nops {
		k := r.intn(100)
		var op genOp
		switch {
		case k < 10 && commit > snapIndex:
			idx := snapIndex + 1 + uint64(r.intn(int(commit-snapIndex)))
			op = genOp{kind: "snap", snap: walpb.Snapshot{Index: idx, Term: termOf[idx], ConfState: &raftpb.ConfState{Voters: []uint64{1, 2, 3}}}}
			if r.chance(1, 3) {
				op.snap.ConfState = &raftpb.ConfState{} // marshals to an empty message
			}
			snaps = append(snaps, walpb.Snapshot{Index: idx, Term: termOf[idx]})
			if r.chance(1, 2) {
				snapIndex = idx
			}
		case k < 34:
			// a Save without entries: commit-only, vote-only, term-only, term+vote, an identical
			// state again, the empty hard state (each after whatever came before)
			switch v := r.intn(12); {
			case v < 3 && lastIndex > commit:
				commit += 1 + uint64(r.intn(int(lastIndex-commit)))
				stateOnlyShapes["save_commit_only"]++
			case v < 6:
				vote = uint64(r.intn(4)) // vote only (0 = vote cleared)
				stateOnlyShapes["save_vote_only"]++
			case v < 8:
				term++ // term only
				stateOnlyShapes["save_term_only"]++
			case v < 10:
				term++
				vote = uint64(r.intn(4))
				stateOnlyShapes["save_term_and_vote"]++
			case v < 11:
				// unchanged state saved again
				stateOnlyShapes["save_same_state"]++
			default:
				ops = append(ops, genOp{kind: "save"}) // Save(HardState{}, nil): returns early
				stateOnlyShapes["save_empty"]++
				continue
			}
			op = genOp{kind: "save", st: raftpb.HardState{Term: term, Vote: vote, Commit: commit}}
		default:
			if r.chance(1, 8) {
				term++
				vote = uint64(1 + r.intn(3))
				if lastIndex > commit && lastIndex > snapIndex+1 && r.chance(1, 2) {
					back := 1 + uint64(r.intn(int(lastIndex-commit)))
					if lastIndex-back > snapIndex {
						lastIndex -= back
					}
				}
			}
			n := 1 + r.intn(3)
			for i := 0; i < n; i++ {
				lastIndex++
				e := raftpb.Entry{Term: term, Index: lastIndex, Data: smallPayload(r)}
				if r.chance(1, 12) {
					e.Type = raftpb.EntryConfChange
				}
				termOf[lastIndex] = term
				op.ents = append(op.ents, e)
			}
			if r.chance(1, 3) && lastIndex > commit {
				commit += uint64(r.intn(int(lastIndex-commit) + 1))
			}
			op.kind = "save"
			if r.chance(4, 5) {
				op.st = raftpb.HardState{Term: term, Vote: vote, Commit: commit}
			}
		}
		ops = append(ops, op)
	}
	return ops, snaps
}

func sectorList(ss []int) string {
	if len(ss) == 0 {
		return "-"
	}
	strs := make([]string, len(ss))
	for j, x := range ss {
		strs[j] = strconv.Itoa(x)
	}
	return strings.Join(strs, ",")
}

// all subsets of first..last when there are at most maxAll sectors, otherwise singles, all,
// none, all-but-one and nrand random subsets
func sectorSubsets(r *rng, first, last, maxAll, nrand int) [][]int {
	nsec := last - first + 1
	var subsets [][]int
	if nsec <= maxAll {
		for m := 0; m < 1<<uint(nsec); m++ {
			var ss []int
			for j := 0; j < nsec; j++ {
				if m>>uint(j)&1 == 1 {
					ss = append(ss, first+j)
				}
			}
			subsets = append(subsets, ss)
		}
		return subsets
	}
	var all []int
	for j := first; j <= last; j++ {
		all = append(all, j)
		subsets = append(subsets, []int{j})
	}
	subsets = append(subsets, all, nil)
	for j := first; j <= last; j++ {
		var ss []int
		for _, x := range all {
			if x != j {
				ss = append(ss, x)
			}
		}
		subsets = append(subsets, ss)
	}
	for t := 0; t < nrand; t++ {
		var ss []int
		for _, x := range all {
			if r.chance(1, 2) {
				ss = append(ss, x)
			}
		}
		subsets = append(subsets, ss)
	}
	return subsets
}

func genSmallCmd(out string, seed uint64, thorough bool) error {
	r := newRng(seed ^ 0x5ca11)
	f, err := os.Create(out)
	if err != nil {
		return err
	}
	defer f.Close()
	w := bufio.NewWriterSize(f, 1<<20)
	defer w.Flush()
	root, err := os.MkdirTemp(os.Getenv("VERIF_SCRATCH_ROOT"), "c16-gensmall-")
	if err != nil {
		return err
	}
	defer os.RemoveAll(root)

	nscripts := 150
	if thorough {
		nscripts = 300
	}
	if v, err := strconv.Atoi(os.Getenv("VERIF_C16_SCRIPTS")); err == nil && v > 0 {
		nscripts = v
	}
	cid, didc := 0, 0
	next := func() string { cid++; return fmt.Sprintf("c%d", cid) }
	stats := map[string]int{}
	for s := 0; s < nscripts; s++ {
		segsize := []int64{512, 1024, 2048, 4096}[r.intn(4)]
		nops := 1 + r.intn(7)
		if s < 20 {
			nops = 1 + s%3 // the smallest logs first
			segsize = 4096
		}
		var meta []byte
		switch k := r.intn(8); {
		case k < 2:
			meta = nil
		case k < 3:
			meta = []byte{}
		default:
			meta = r.bytes(1 + r.intn(12))
		}
		ops, snaps := genSmallOps(r, nops)
		bigWrite := s%20 == 7
		if bigWrite {
			// one Save whose records span more than one / two 4 KiB pages: after a crash in the
			// middle of it, surviving sectors can lie far behind the first lost ones
			segsize = 16384
			nent := 4 + 4*(s/10%2) // ~5 KiB or ~10 KiB
			big := genOp{kind: "save", st: raftpb.HardState{Term: 1, Vote: 1, Commit: 0}}
			for i := 0; i < nent; i++ {
				big.ents = append(big.ents, raftpb.Entry{Term: 1, Index: uint64(2 + i), Data: r.bytes(1100 + r.intn(200))})
			}
			ops = []genOp{
				{kind: "save", st: raftpb.HardState{Term: 1, Vote: 1, Commit: 0}, ents: []raftpb.Entry{{Term: 1, Index: 1, Data: r.bytes(1 + r.intn(40))}}},
				big,
			}
			snaps = nil
			stats["scripts_big_unsynced_write"]++
		}
		wid := fmt.Sprintf("s%d", s)
		if s%25 == 13 {
			// a multi-session history: session 1 ends with the tail PAST the segment size (the last
			// operation is a SaveSnapshot, which never cuts), the WAL is reopened at a snapshot
			// covering every stored entry, the first Save of session 2 carries no entries and runs
			// the cut, more entries and a snapshot follow, another reopen at the EARLIER snapshot
			so, sn, err := genSessionOps(r, root, wid+"t", &segsize, meta)
			if err != nil {
				return err
			}
			ops, snaps = so, sn
			stats["scripts_multi_session"]++
		}
		if s%25 == 19 {
			// a tail record larger than a 4 KiB page whose 8-byte frame header lands at a chosen
			// offset modulo the sector size (504: the body starts exactly on a sector boundary)
			target := []int{504, 496, 504, 0, 504, 8}[(s/25)%6]
			bo, err := genBigRecordOps(r, root, wid+"t", &segsize, meta, target)
			if err != nil {
				return err
			}
			ops, snaps = bo, nil
			stats["scripts_big_tail_record"]++
		}
		sr, err := runScript(root, wid, segsize, meta, ops, &didc)
		if err != nil {
			return err
		}
		emitScenario(w, &scenario{wid: wid, segsize: segsize, meta: meta, ops: sr.outOps})
		for _, d := range sr.dirs {
			emitDir(w, wid, d)
			stats["dirs"]++
		}
		final := sr.final
		emitDir(w, wid, final)
		stats["dirs"]++
		stats["scripts"]++
		stats["ops"] += len(sr.outOps)
		if len(final.files) > 1 {
			stats["scripts_with_cut"]++
		}
		fmt.Fprintf(w, "READ %s %s 0 0\n", next(), final.id)
		stats["read"]++
		// a process-kill image after EVERY operation: what Open+ReadAll finds must contain every
		// completed save (entries; Term and Vote of the last hard state)
		for i, k := range sr.kills {
			emitDir(w, wid, k)
			fmt.Fprintf(w, "K %s %s 0 0 %d\n", next(), k.id, sr.killNops[i])
			stats["kill_images"]++
			if sr.dirAt[i] < 0 {
				stats["kill_images_unsynced"]++
			}
		}
		if s%25 == 13 {
			for _, sn := range snaps {
				fmt.Fprintf(w, "READ %s %s %s %s\n", next(), final.id, hx(sn.Index), hx(sn.Term))
				stats["read"]++
				stats["reads_at_recorded_snapshots"]++
			}
		}
		if len(snaps) > 0 {
			sn := snaps[r.intn(len(snaps))]
			fmt.Fprintf(w, "READ %s %s %s %s\n", next(), final.id, hx(sn.Index), hx(sn.Term))
			fmt.Fprintf(w, "READ %s %s %s %s\n", next(), final.id, hx(sn.Index), hx(sn.Term+1))
			stats["read"] += 2
		}

		// ---- crash images between consecutive synced states of the same tail segment
		all := append(append([]dirSnap(nil), sr.dirs...), final)
		for i := 0; i+1 < len(all); i++ {
			a, b := all[i], all[i+1]
			if len(a.files) != len(b.files) {
				continue
			}
			_, endA := frameOffsets(a.files[len(a.files)-1].data)
			_, endB := frameOffsets(b.files[len(b.files)-1].data)
			if endB <= endA {
				continue
			}
			first, last := endA/512, (endB-1)/512
			maxAll, nrand := 4, 12
			if thorough {
				maxAll, nrand = 6, 200
			}
			subsets := sectorSubsets(r, first, last, maxAll, nrand)
			nsec := last - first + 1
			var prefixLost [][]int
			if nsec > maxAll {
				// the first j sectors of the unsynced region lost, everything behind them written
				for j := 1; j < nsec; j++ {
					if nsec > 12 && !thorough && j != 1 && j != 7 && j != 8 && j != 9 && j != 16 && j != 17 && j != nsec-1 {
						continue
					}
					var ss []int
					for x := first; x < first+j; x++ {
						ss = append(ss, x)
					}
					prefixLost = append(prefixLost, ss)
				}
				subsets = append(subsets, prefixLost...)
			}
			for _, ss := range subsets {
				fmt.Fprintf(w, "Z %s %s 0 0 %d %s\n", next(), b.id, endA, sectorList(ss))
				stats["crash"]++
			}
			// two lives: reopen the crash image for append, append saves past every stale
			// sector, close, reopen
			var life [][]int
			for _, ss := range prefixLost {
				// keep the geometries in which a whole 4 KiB page behind the recovered prefix is lost
				if thorough || len(ss) == 8 || len(ss) == 9 || len(ss) == 17 || len(ss) == nsec-1 {
					life = append(life, ss)
				}
			}
			pick := 0
			if thorough {
				pick = 8
			} else if r.chance(1, 2) {
				pick = 1
			}
			for t := 0; t < pick && len(subsets) > 0; t++ {
				life = append(life, subsets[r.intn(len(subsets))])
			}
			psize := 300
			if endB-endA > 3000 {
				psize = 900
			}
			nsaves := (endB-endA)/psize + 2
			for _, ss := range life {
				fmt.Fprintf(w, "L %s %s 0 0 %d %s %d %d\n", next(), b.id, endA, sectorList(ss), nsaves, psize)
				stats["two_life"]++
			}
			stats["crashpoints"]++
			if last-first+1 > maxAll {
				stats["crashpoints_sampled"]++
			}
			// truncation images: the tail file ENDS at byte t, endA <= t <= endB (the old tail
			// between Truncate and sync inside cut; a tail grown past its preallocation)
			li := len(b.files) - 1
			ts := map[int]bool{endA: true, endB: true}
			for _, dlt := range []int{1, 8} {
				ts[endA+dlt] = true
				ts[endB-dlt] = true
			}
			nr := 3
			if thorough {
				nr = 24
			}
			for t := 0; t < nr; t++ {
				ts[endA+r.intn(endB-endA+1)] = true
			}
			tl := make([]int, 0, len(ts))
			for t := range ts {
				if t >= endA && t <= endB {
					tl = append(tl, t)
				}
			}
			sort.Ints(tl)
			for _, t := range tl {
				fmt.Fprintf(w, "T %s %s 0 0 %d %d %d\n", next(), b.id, li, t, endA)
				stats["truncations"]++
			}
		}

		// ---- single-byte corruptions of the final directory
		emitM := func(fi, off int, val byte) {
			if off < 0 || off >= len(final.files[fi].data) || final.files[fi].data[off] == val {
				return
			}
			fmt.Fprintf(w, "M %s %s 0 0 %d %d %d\n", next(), final.id, fi, off, val)
			stats["corrupt"]++
		}
		// the smallest logs of the thorough tier: every offset x all 255 other values
		full := thorough && s < 8
		for fi := range final.files {
			data := final.files[fi].data
			offs, end := frameOffsets(data)
			if full {
				for off := 0; off < end+16 && off < len(data); off++ {
					for v := 0; v < 256; v++ {
						emitM(fi, off, byte(v))
					}
				}
				stats["files_all_offsets_x255"]++
				continue
			}
			// quick tier: the full header sweep on the last record of the log and on one more
			// record per file, the type byte and one sampled byte on the others
			sweep := map[int]bool{}
			if fi == len(final.files)-1 {
				sweep[len(offs)-1] = true
			}
			if len(offs) > 0 && (thorough || r.chance(1, 4)) {
				sweep[r.intn(len(offs))] = true
			}
			for i, o := range offs {
				e := end
				if i+1 < len(offs) {
					e = offs[i+1]
				}
				// the records written by Create are the same in every script: sample them
				isCreate := fi == 0 && i < 3
				if isCreate && !r.chance(1, 6) {
					continue
				}
				if !thorough && !sweep[i] {
					for _, v := range []byte{2, 3, 5} {
						emitM(fi, o+9, v)
					}
					off := o + r.intn(e-o)
					emitM(fi, off, data[off]^byte(1<<uint(r.intn(8))))
					continue
				}
				for d := 0; d < 20 && o+d < e; d++ {
					b := data[o+d]
					vals := []byte{b ^ 0x01, b ^ 0x80}
					if d == 9 {
						vals = append(vals, 0, 1, 2, 3, 4, 5, 6)
					}
					if d < 8 {
						vals = append(vals, 0)
					}
					if thorough {
						vals = append(vals, b^0x10, 0xff)
					}
					seen := map[byte]bool{}
					for _, v := range vals {
						if !seen[v] {
							seen[v] = true
							emitM(fi, o+d, v)
						}
					}
				}
				nsamp := 2
				if thorough {
					nsamp = 10
				}
				for t := 0; t < nsamp && e-o > 20; t++ {
					off := o + 20 + r.intn(e-o-20)
					b := data[off]
					emitM(fi, off, b^byte(1<<uint(r.intn(8))))
					emitM(fi, off, byte(r.next()))
				}
			}
			for t := 0; t < 2; t++ {
				if len(data) > end {
					emitM(fi, end+r.intn(len(data)-end), byte(1+r.intn(255)))
				}
			}
		}
	}
	for k, v := range stateOnlyShapes {
		stats[k] = v
	}
	keys := make([]string, 0, len(stats))
	for k := range stats {
		keys = append(keys, k)
	}
	sort.Strings(keys)
	for _, k := range keys {
		fmt.Printf("%s=%d ", k, stats[k])
	}
	fmt.Println()
	return nil
}

// genSessionOps builds the multi-session history described in genSmallCmd; payload sizes are
// found by running the prefix on the real WAL (so that the geometry holds whatever the encoding)
func genSessionOps(r *rng, root, wid string, segsize *int64, meta []byte) ([]genOp, []walpb.Snapshot, error) {
	*segsize = []int64{512, 1024}[r.intn(2)]
	tailEnd := func(ops []genOp) (int, int, error) {
		c := 0
		sr, err := runScript(root, wid, *segsize, meta, ops, &c)
		if err != nil {
			return 0, 0, err
		}
		fl := sr.final.files
		_, end := frameOffsets(fl[len(fl)-1].data)
		return end, len(fl), nil
	}
	cs := &raftpb.ConfState{Voters: []uint64{1, 2, 3}}
	var ops []genOp
	idx := uint64(0)
	save := func(term uint64, n int, psize int) genOp {
		op := genOp{kind: "save"}
		for i := 0; i < n; i++ {
			idx++
			op.ents = append(op.ents, raftpb.Entry{Term: term, Index: idx, Data: r.bytes(psize)})
		}
		op.st = raftpb.HardState{Term: term, Vote: term, Commit: idx}
		return op
	}
	// session 1: fill the first segment to just below its size
	for {
		end, _, err := tailEnd(ops)
		if err != nil {
			return nil, nil, err
		}
		if int64(end)+150 >= *segsize {
			break
		}
		ops = append(ops, save(1, 1, 10+r.intn(30)))
	}
	ok := false
	for p := 1; p < 200 && !ok; p++ {
		idx0 := idx
		cand := append(append([]genOp(nil), ops...), save(1, 1, p))
		snapOp := genOp{kind: "snap", snap: walpb.Snapshot{Index: idx, Term: 1, ConfState: cs}}
		e1, n1, err := tailEnd(cand)
		if err != nil {
			return nil, nil, err
		}
		e2, n2, err := tailEnd(append(append([]genOp(nil), cand...), snapOp))
		if err != nil {
			return nil, nil, err
		}
		if n1 == 1 && n2 == 1 && int64(e1) < *segsize && int64(e2) >= *segsize {
			ops = append(cand, snapOp)
			ok = true
		} else {
			idx = idx0
		}
	}
	if !ok {
		return nil, nil, fmt.Errorf("no geometry for a session ending past the segment size")
	}
	snap1 := walpb.Snapshot{Index: idx, Term: 1}
	// session 2: reopen at the snapshot that covers every entry; a Save without entries cuts
	ops = append(ops, genOp{kind: "reopen", snap: snap1})
	ops = append(ops, genOp{kind: "save", st: raftpb.HardState{Term: 2, Vote: 2, Commit: idx}})
	ops = append(ops, save(2, 2+r.intn(3), 10+r.intn(40)))
	snap2 := walpb.Snapshot{Index: idx - 1, Term: 2}
	ops = append(ops, genOp{kind: "snap", snap: walpb.Snapshot{Index: snap2.Index, Term: 2, ConfState: cs}})
	// session 3: reopen at the EARLIER snapshot, append
	ops = append(ops, genOp{kind: "reopen", snap: snap1})
	ops = append(ops, save(2, 1+r.intn(3), 10+r.intn(40)))
	if r.chance(1, 2) {
		ops = append(ops, genOp{kind: "reopen", snap: snap2})
		ops = append(ops, save(3, 1, 20))
	}
	return ops, []walpb.Snapshot{snap1, snap2}, nil
}

// genBigRecordOps: a small synced Save padded so that the next frame header starts at
// <target> mod 512, then one Save of a single entry of 4097..8000 bytes (the crash happens in it)
func genBigRecordOps(r *rng, root, wid string, segsize *int64, meta []byte, target int) ([]genOp, error) {
	*segsize = 16384
	for p := 1; p < 600; p++ {
		ops := []genOp{{kind: "save", st: raftpb.HardState{Term: 1, Vote: 1, Commit: 0},
			ents: []raftpb.Entry{{Term: 1, Index: 1, Data: r.bytes(p)}}}}
		c := 0
		sr, err := runScript(root, wid, *segsize, meta, ops, &c)
		if err != nil {
			return nil, err
		}
		fl := sr.final.files
		_, end := frameOffsets(fl[len(fl)-1].data)
		if end%512 == target {
			big := r.bytes(4097 + r.intn(3900))
			for i := range big {
				if big[i] == 0 {
					big[i] = 0x5a
				}
			}
			ops = append(ops, genOp{kind: "save", st: raftpb.HardState{Term: 1, Vote: 1, Commit: 1},
				ents: []raftpb.Entry{{Term: 1, Index: 2, Data: big}}})
			return ops, nil
		}
	}
	return nil, fmt.Errorf("no padding puts the frame header at %d mod 512", target)
}
