package main

// observe: reads a case file (same grammar as ml/walrun.ml reads), performs every case on the
// real etcd code and prints one line per case.

import (
	"bufio"
	"crypto/md5"
	"encoding/hex"
	"errors"
	"fmt"
	"hash/crc32"
	"io"
	"os"
	"path/filepath"
	"sort"
	"strconv"
	"strings"

	"go.etcd.io/etcd/raft/v3/raftpb"
	"go.etcd.io/etcd/server/v3/etcdserver/api/snap"
	"go.etcd.io/etcd/server/v3/storage/wal"
	"go.etcd.io/etcd/server/v3/storage/wal/walpb"
	"go.uber.org/zap"
)

func init() { subcmds["observe"] = observeCmd }

var castagnoli = crc32.MakeTable(crc32.Castagnoli)

func md5hex(b []byte) string { s := md5.Sum(b); return hex.EncodeToString(s[:]) }

func optTok(b []byte) string {
	if b == nil {
		return "nil"
	}
	return "x" + hex.EncodeToString(b)
}

func tokOpt(t string) ([]byte, error) {
	if t == "nil" {
		return nil, nil
	}
	if !strings.HasPrefix(t, "x") {
		return nil, fmt.Errorf("bad optional bytes token %q", t)
	}
	b, err := hex.DecodeString(t[1:])
	if err != nil {
		return nil, err
	}
	if b == nil {
		b = []byte{}
	}
	return b, nil
}

func hx(v uint64) string { return strconv.FormatUint(v, 16) }

func unhx(s string) uint64 {
	v, err := strconv.ParseUint(s, 16, 64)
	if err != nil {
		panic("bad hex number " + s)
	}
	return v
}

type fileEnt struct {
	seq, index uint64
	data       []byte
}

func (f fileEnt) name() string { return fmt.Sprintf("%016x-%016x.wal", f.seq, f.index) }

func dirDigest(files []fileEnt) string {
	var sb strings.Builder
	for _, f := range files {
		fmt.Fprintf(&sb, "%s-%s:%s\n", hx(f.seq), hx(f.index), md5hex(f.data))
	}
	return md5hex([]byte(sb.String()))
}

// ---------------------------------------------------------------- classification

func classify(err error) string {
	switch {
	case err == nil:
		return ""
	case errors.Is(err, io.ErrUnexpectedEOF):
		return "unexpected_eof"
	case errors.Is(err, walpb.ErrCRCMismatch):
		return "rec_crc"
	case errors.Is(err, wal.ErrCRCMismatch):
		return "chain_crc"
	case errors.Is(err, wal.ErrSliceOutOfRange):
		return "slice_oor"
	case errors.Is(err, wal.ErrMetadataConflict):
		return "meta_conflict"
	case errors.Is(err, wal.ErrSnapshotMismatch):
		return "snap_mismatch"
	case errors.Is(err, wal.ErrSnapshotNotFound):
		return "snap_not_found"
	case strings.HasPrefix(err.Error(), "wal: max entry size limit exceeded"):
		return "size_limit"
	case strings.HasPrefix(err.Error(), "unexpected block type"):
		return "bad_type"
	case strings.HasPrefix(err.Error(), "proto:"):
		return "unmarshal"
	default:
		return "other(" + strings.ReplaceAll(err.Error(), " ", "_") + ")"
	}
}

func hsStr(h raftpb.HardState) string { return hx(h.Term) + "." + hx(h.Vote) + "." + hx(h.Commit) }

func entsCanon(es []raftpb.Entry) string {
	var sb strings.Builder
	for _, e := range es {
		sb.WriteString(hx(uint64(uint32(e.Type))))
		sb.WriteByte(',')
		sb.WriteString(hx(e.Term))
		sb.WriteByte(',')
		sb.WriteString(hx(e.Index))
		sb.WriteByte(',')
		sb.WriteString(optTok(e.Data))
		sb.WriteByte(';')
	}
	return sb.String()
}

func resStr(meta []byte, hs raftpb.HardState, es []raftpb.Entry, found bool) string {
	last := uint64(0)
	if len(es) > 0 {
		last = es[len(es)-1].Index
	}
	f := 0
	if found {
		f = 1
	}
	return fmt.Sprintf("ok,found=%d,meta=%s,hs=%s,n=%d,last=%s,md5=%s", f, optTok(meta), hsStr(hs), len(es), hx(last), md5hex([]byte(entsCanon(es))))
}

// ---------------------------------------------------------------- one observation

var lg = zap.NewNop()

func writeDir(root string, files []fileEnt) (string, error) {
	dir, err := os.MkdirTemp(root, "case-")
	if err != nil {
		return "", err
	}
	for _, f := range files {
		if err := os.WriteFile(filepath.Join(dir, f.name()), f.data, 0600); err != nil {
			return "", err
		}
	}
	return dir, nil
}

func safeVerify(dir string, snap walpb.Snapshot) (res string) {
	defer func() {
		if e := recover(); e != nil {
			res = "err:panic"
		}
	}()
	hs, err := wal.Verify(lg, dir, snap)
	if err != nil {
		c := classify(err)
		if strings.HasPrefix(c, "other(wal:_file_not_found") || strings.HasPrefix(c, "other(wal:_file_sequence") {
			c = "open"
		}
		return "err:" + c
	}
	return "ok,hs=" + hsStr(*hs)
}

// Open + ReadAll + Close. Returns the result string and whether it is an error class.
func safeReadAll(dir string, snap walpb.Snapshot) (res string, isErr bool, openErr bool) {
	w, err := wal.Open(lg, dir, snap)
	if err != nil {
		return "err:open", true, true
	}
	w.SetUnsafeNoFsync()
	func() {
		defer func() {
			if e := recover(); e != nil {
				res, isErr = "err:panic", true
			}
		}()
		meta, hs, ents, err := w.ReadAll()
		switch {
		case err == nil:
			res = resStr(meta, hs, ents, true)
		case errors.Is(err, wal.ErrSnapshotNotFound):
			res = resStr(meta, hs, ents, false)
		default:
			res, isErr = "err:"+classify(err), true
		}
	}()
	func() {
		defer func() { recover() }()
		w.Close()
	}()
	return res, isErr, false
}

func lastWal(dir string) []byte {
	names, _ := filepath.Glob(filepath.Join(dir, "*.wal"))
	if len(names) == 0 {
		return nil
	}
	sort.Strings(names)
	b, _ := os.ReadFile(names[len(names)-1])
	return b
}

func safeRepair(dir string) (ok bool, panicked bool) {
	defer func() {
		if e := recover(); e != nil {
			ok, panicked = false, true
		}
	}()
	return wal.Repair(lg, dir), false
}

func observeDir(root string, files []fileEnt, si, st uint64) (string, error) {
	dir, err := writeDir(root, files)
	if err != nil {
		return "", err
	}
	defer os.RemoveAll(dir)
	snap := walpb.Snapshot{Index: si, Term: st}
	v := safeVerify(dir, snap)
	r, isErr, openErr := safeReadAll(dir, snap)
	tail := "-"
	if !isErr {
		tail = md5hex(lastWal(dir))
	}
	line := fmt.Sprintf("verify=%s readall=%s tail=%s", v, r, tail)
	if isErr && !openErr {
		ok, pan := safeRepair(dir)
		rep := "0"
		if ok {
			rep = "1"
		}
		if pan {
			rep = "panic"
		}
		r2, isErr2, _ := safeReadAll(dir, snap)
		tail2 := "-"
		if !isErr2 {
			tail2 = md5hex(lastWal(dir))
		}
		line += fmt.Sprintf(" repair=%s readall2=%s tail2=%s", rep, r2, tail2)
	}
	return line, nil
}

// ---------------------------------------------------------------- case files

func cloneFiles(fs []fileEnt) []fileEnt {
	out := make([]fileEnt, len(fs))
	for i, f := range fs {
		out[i] = fileEnt{f.seq, f.index, append([]byte(nil), f.data...)}
	}
	return out
}

// crash image: every byte at or above the sync point that lies in a lost sector stays zero
func crashImage(data []byte, synced int, lost map[int]bool) []byte {
	out := append([]byte(nil), data...)
	for i := synced; i < len(out); i++ {
		if lost[i/512] {
			out[i] = 0
		}
	}
	return out
}

func scanLines(path string, f func(fs []string) error) error {
	fh, err := os.Open(path)
	if err != nil {
		return err
	}
	defer fh.Close()
	sc := bufio.NewScanner(fh)
	sc.Buffer(make([]byte, 1<<20), 1<<28)
	for sc.Scan() {
		fs := strings.Fields(sc.Text())
		if len(fs) == 0 {
			continue
		}
		if err := f(fs); err != nil {
			return err
		}
	}
	return sc.Err()
}

// observe <mode> <cases> <impl-out>
func observeCmd(args []string) error {
	if len(args) != 3 {
		return fmt.Errorf("observe crc|wal|snap <cases> <out>")
	}
	of, err := os.Create(args[2])
	if err != nil {
		return err
	}
	defer of.Close()
	ow := bufio.NewWriterSize(of, 1<<20)
	defer ow.Flush()
	root, err := os.MkdirTemp(os.Getenv("VERIF_SCRATCH_ROOT"), "c16-obs-")
	if err != nil {
		return err
	}
	defer os.RemoveAll(root)
	xf, err := os.Create(args[2] + ".extra")
	if err != nil {
		return err
	}
	defer xf.Close()
	extraW = bufio.NewWriterSize(xf, 1<<20)
	defer extraW.Flush()
	switch args[0] {
	case "crc":
		return scanLines(args[1], func(fs []string) error {
			if fs[0] != "CRC" || len(fs) != 3 {
				return nil
			}
			var d []byte
			if fs[2] != "-" {
				if d, err = hex.DecodeString(fs[2]); err != nil {
					return err
				}
			}
			fmt.Fprintf(ow, "crc %s\n", hx(uint64(crc32.Update(uint32(unhx(fs[1])), castagnoli, d))))
			return nil
		})
	case "wal":
		return observeWal(args[1], ow, root)
	case "snap":
		return observeSnap(args[1], ow, root)
	}
	return fmt.Errorf("unknown mode %s", args[0])
}

var extraW *bufio.Writer

func observeWal(cases string, ow *bufio.Writer, root string) error {
	curWid := ""
	dirWid := map[string]string{}
	wal.SegmentSizeBytes = 4096 // only the size of the background-preallocated next segment
	dirs := map[string][]fileEnt{}
	dirNops := map[string]int{}
	return scanLines(cases, func(fs []string) error {
		switch fs[0] {
		case "WAL":
			curWid = fs[1]
			if v, err := strconv.ParseInt(fs[2], 10, 64); err == nil {
				wal.SegmentSizeBytes = v
			}
		case "DIR":
			dirWid[fs[1]] = fs[2]
			dirs[fs[1]] = nil
			n, _ := strconv.Atoi(fs[3])
			dirNops[fs[1]] = n
		case "F":
			b, err := hex.DecodeString(fs[4])
			if err != nil {
				return err
			}
			dirs[fs[1]] = append(dirs[fs[1]], fileEnt{unhx(fs[2]), unhx(fs[3]), b})
		case "ENDDIR":
			if dirNops[fs[1]] >= 0 {
				fmt.Fprintf(ow, "D %s %s\n", fs[1], dirDigest(dirs[fs[1]]))
			}
		case "READ", "K":
			line, err := observeDir(root, dirs[fs[2]], unhx(fs[3]), unhx(fs[4]))
			if err != nil {
				return err
			}
			fmt.Fprintf(ow, "R %s %s\n", fs[1], line)
		case "M":
			files := cloneFiles(dirs[fs[2]])
			fi, _ := strconv.Atoi(fs[5])
			off, _ := strconv.Atoi(fs[6])
			val, _ := strconv.Atoi(fs[7])
			if fi < len(files) && off < len(files[fi].data) {
				files[fi].data[off] = byte(val)
			}
			line, err := observeDir(root, files, unhx(fs[3]), unhx(fs[4]))
			if err != nil {
				return err
			}
			fmt.Fprintf(ow, "R %s %s\n", fs[1], line)
		case "L":
			_ = curWid
			if err := observeTwoLife(root, ow, extraW, dirWid[fs[2]], fs, dirs[fs[2]]); err != nil {
				return err
			}
		case "T":
			// truncation image: file <fidx> of the directory ends after <size> bytes (a tail that
			// was being extended past its allocation, or the old tail between Truncate and sync in cut)
			files := cloneFiles(dirs[fs[2]])
			fi, _ := strconv.Atoi(fs[5])
			sz, _ := strconv.Atoi(fs[6])
			if fi < len(files) && sz <= len(files[fi].data) {
				files[fi].data = files[fi].data[:sz]
			}
			line, err := observeDir(root, files, unhx(fs[3]), unhx(fs[4]))
			if err != nil {
				return err
			}
			fmt.Fprintf(ow, "R %s %s\n", fs[1], line)
		case "Z":
			files := cloneFiles(dirs[fs[2]])
			synced, _ := strconv.Atoi(fs[5])
			lost := map[int]bool{}
			if fs[6] != "-" {
				for _, s := range strings.Split(fs[6], ",") {
					k, _ := strconv.Atoi(s)
					lost[k] = true
				}
			}
			if n := len(files); n > 0 {
				files[n-1].data = crashImage(files[n-1].data, synced, lost)
			}
			line, err := observeDir(root, files, unhx(fs[3]), unhx(fs[4]))
			if err != nil {
				return err
			}
			fmt.Fprintf(ow, "R %s %s\n", fs[1], line)
		}
		return nil
	})
}

// ---------------------------------------------------------------- snapshots

func safeLoad(dir string) (res string) {
	defer func() {
		if e := recover(); e != nil {
			res = "panic"
		}
	}()
	s, err := snap.New(lg, dir).Load()
	if err != nil {
		if errors.Is(err, snap.ErrNoSnapshot) {
			return "nosnap"
		}
		return "err:" + strings.ReplaceAll(err.Error(), " ", "_")
	}
	b, err := s.Marshal()
	if err != nil {
		return "err:marshal"
	}
	return "ok:" + md5hex(b)
}

func observeSnap(cases string, ow *bufio.Writer, root string) error {
	return scanLines(cases, func(fs []string) error {
		switch fs[0] {
		case "SNAPENC":
			b, err := hex.DecodeString(fs[1])
			if err != nil {
				return err
			}
			var s raftpb.Snapshot
			if err := s.Unmarshal(b); err != nil {
				return err
			}
			dir, err := os.MkdirTemp(root, "snapenc-")
			if err != nil {
				return err
			}
			defer os.RemoveAll(dir)
			if err := snap.New(lg, dir).SaveSnap(s); err != nil {
				return err
			}
			names, _ := filepath.Glob(filepath.Join(dir, "*.snap"))
			if len(names) != 1 {
				return fmt.Errorf("SaveSnap wrote %d files", len(names))
			}
			fb, _ := os.ReadFile(names[0])
			fmt.Fprintf(ow, "E %s\n", md5hex(fb))
		case "SNAP":
			dir, err := os.MkdirTemp(root, "snap-")
			if err != nil {
				return err
			}
			defer os.RemoveAll(dir)
			for i := 3; i+1 < len(fs); i += 2 {
				nm, err := hex.DecodeString(fs[i])
				if err != nil {
					return err
				}
				var c []byte
				if fs[i+1] != "-" {
					if c, err = hex.DecodeString(fs[i+1]); err != nil {
						return err
					}
				}
				if err := os.WriteFile(filepath.Join(dir, string(nm)), c, 0600); err != nil {
					return err
				}
			}
			res := safeLoad(dir)
			ents, _ := os.ReadDir(dir)
			var broken []string
			for _, e := range ents {
				if strings.HasSuffix(e.Name(), ".broken") {
					orig := strings.TrimSuffix(e.Name(), ".broken")
					// only count files that Load renamed (the original name is gone)
					if _, err := os.Stat(filepath.Join(dir, orig)); err != nil {
						broken = append(broken, orig)
					}
				}
			}
			sort.Strings(broken)
			bs := "-"
			if len(broken) > 0 {
				hs := make([]string, len(broken))
				for i, b := range broken {
					hs[i] = hex.EncodeToString([]byte(b))
				}
				bs = strings.Join(hs, ",")
			}
			fmt.Fprintf(ow, "S %s load=%s broken=%s\n", fs[1], res, bs)
		}
		return nil
	})
}
