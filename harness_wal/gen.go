package main

// Generators: write real WAL directories / snapshot files with the etcd code and derive the
// case files (pristine reads, crash images, single-byte corruptions) from them.

import (
	"bufio"
	"encoding/binary"
	"encoding/hex"
	"fmt"
	"os"
	"path/filepath"
	"sort"
	"strconv"
	"strings"

	"go.etcd.io/etcd/raft/v3"
	"go.etcd.io/etcd/raft/v3/raftpb"
	"go.etcd.io/etcd/server/v3/etcdserver/api/snap"
	"go.etcd.io/etcd/server/v3/storage/wal"
	"go.etcd.io/etcd/server/v3/storage/wal/walpb"
)

func init() {
	subcmds["gencrc"] = genCrcCmd
	subcmds["genwal"] = genWalCmd
	subcmds["gensnap"] = genSnapCmd
}

func (r *rng) bytes(n int) []byte {
	b := make([]byte, n)
	for i := range b {
		b[i] = byte(r.next())
	}
	return b
}

// ---------------------------------------------------------------- crc

// gencrc <cases-out> <seed> <n>
func genCrcCmd(args []string) error {
	if len(args) != 3 {
		return fmt.Errorf("gencrc <cases> <seed> <n>")
	}
	seed, _ := strconv.ParseUint(args[1], 10, 64)
	n, _ := strconv.Atoi(args[2])
	r := newRng(seed ^ 0xc16c)
	f, err := os.Create(args[0])
	if err != nil {
		return err
	}
	defer f.Close()
	w := bufio.NewWriter(f)
	defer w.Flush()
	emit := func(prev uint32, d []byte) {
		h := "-"
		if len(d) > 0 {
			h = hex.EncodeToString(d)
		}
		fmt.Fprintf(w, "CRC %x %s\n", prev, h)
	}
	// structured: empty input, every single byte, runs of 0x00 / 0xff, the check string
	for _, p := range []uint32{0, 1, 0xffffffff, 0x80000000, 0xdeadbeef} {
		emit(p, nil)
	}
	for b := 0; b < 256; b++ {
		emit(0, []byte{byte(b)})
		emit(uint32(r.next()), []byte{byte(b)})
	}
	for _, l := range []int{1, 2, 3, 4, 7, 8, 9, 15, 16, 17, 63, 64, 65, 511, 512, 513, 1024} {
		emit(0, make([]byte, l))
		ff := make([]byte, l)
		for i := range ff {
			ff[i] = 0xff
		}
		emit(0, ff)
		emit(uint32(r.next()), make([]byte, l))
	}
	emit(0, []byte("123456789"))
	// chaining: crc(prev, a++b) must equal crc(crc(prev,a), b) on both sides, so feed both
	for i := 0; i < n; i++ {
		l := r.intn(300)
		if r.chance(1, 10) {
			l = r.intn(3000)
		}
		emit(uint32(r.next()), r.bytes(l))
	}
	return nil
}

// ---------------------------------------------------------------- wal scenarios

type genOp struct {
	kind string // save | snap | cut
	st   raftpb.HardState
	ents []raftpb.Entry
	snap walpb.Snapshot
}

func readWalDir(dir string) ([]fileEnt, error) {
	names, err := filepath.Glob(filepath.Join(dir, "*.wal"))
	if err != nil {
		return nil, err
	}
	sort.Strings(names)
	var out []fileEnt
	for _, n := range names {
		var seq, idx uint64
		if _, err := fmt.Sscanf(filepath.Base(n), "%016x-%016x.wal", &seq, &idx); err != nil {
			return nil, err
		}
		b, err := os.ReadFile(n)
		if err != nil {
			return nil, err
		}
		out = append(out, fileEnt{seq, idx, b})
	}
	return out, nil
}

// frame walk: offsets of the records of a cleanly written segment (harness-side bookkeeping
// only; the model computes the same offsets itself and the two are compared)
func frameOffsets(data []byte) (offs []int, end int) {
	off := 0
	for off+8 <= len(data) {
		l := binary.LittleEndian.Uint64(data[off:])
		if l == 0 {
			break
		}
		rec := int(l & 0x00ffffffffffffff)
		pad := 0
		if l>>63 == 1 {
			pad = int((l >> 56) & 7)
		}
		offs = append(offs, off)
		off += 8 + rec + pad
	}
	return offs, off
}

type dirSnap struct {
	id     string
	nops   int
	files  []fileEnt
	synced bool
}

type scenario struct {
	wid     string
	segsize int64
	meta    []byte
	ops     []genOp
	dirs    []dirSnap
	snaps   []walpb.Snapshot // snapshots saved, usable as Open() arguments
}

func payload(r *rng, segsize int64) []byte {
	var n int
	switch k := r.intn(100); {
	case k < 5:
		return nil
	case k < 10:
		return []byte{}
	case k < 40:
		n = 1 + r.intn(32)
	case k < 60:
		// around sector boundaries
		n = []int{430, 470, 490, 500, 512, 520, 980, 1000, 1024, 1040}[r.intn(10)] + r.intn(24)
	case k < 90:
		n = 100 + r.intn(200)
	default:
		n = 1500 + r.intn(1500)
		if int64(n) > segsize/2 {
			n = int(segsize / 2)
		}
	}
	if r.chance(1, 20) {
		return make([]byte, n) // all zero: a legitimately zero sector chunk
	}
	b := r.bytes(n)
	if r.chance(1, 10) && n > 600 {
		// a zero run longer than a sector inside random data
		for i := 40; i < 40+560 && i < n; i++ {
			b[i] = 0
		}
	}
	return b
}

func genScenario(r *rng, root string, wid string, segsize int64, target int, didc *int) (*scenario, error) {
	sc := &scenario{wid: wid, segsize: segsize}
	switch k := r.intn(8); {
	case k < 2:
		sc.meta = nil
	case k < 3:
		sc.meta = []byte{}
	default:
		sc.meta = r.bytes(1 + r.intn(40))
	}
	dir := filepath.Join(root, "wal-"+wid)
	wal.SegmentSizeBytes = segsize
	w, err := wal.Create(lg, dir, sc.meta)
	if err != nil {
		return nil, err
	}
	takeDir := func(synced bool) error {
		fs, err := readWalDir(dir)
		if err != nil {
			return err
		}
		*didc++
		sc.dirs = append(sc.dirs, dirSnap{id: fmt.Sprintf("d%d", *didc), nops: len(sc.ops), files: fs, synced: synced})
		return nil
	}
	if err := takeDir(true); err != nil {
		return nil, err
	}
	var (
		lastIndex, term, vote, commit, snapIndex uint64
		prev                                     raftpb.HardState // w.state
		written                                  int
		termOf                                   = map[uint64]uint64{}
	)
	term = 1
	nfiles := 1
	for written < target && len(sc.ops) < 400 {
		k := r.intn(100)
		var op genOp
		switch {
		case k < 8 && commit > snapIndex:
			idx := snapIndex + 1 + uint64(r.intn(int(commit-snapIndex)))
			op = genOp{kind: "snap", snap: walpb.Snapshot{Index: idx, Term: termOf[idx], ConfState: &raftpb.ConfState{Voters: []uint64{1, 2, 3}}}}
			if r.chance(1, 3) {
				op.snap.ConfState.Learners = []uint64{4}
			}
		case k < 18:
			// hard state only; commit-only changes are not synced by Save (raft.MustSync)
			if lastIndex > commit && r.chance(2, 3) {
				commit += 1 + uint64(r.intn(int(lastIndex-commit)))
			} else {
				term++
				vote = uint64(1 + r.intn(3))
			}
			op = genOp{kind: "save", st: raftpb.HardState{Term: term, Vote: vote, Commit: commit}}
		default:
			if r.chance(1, 12) {
				term++
				vote = uint64(1 + r.intn(3))
				// a new leader may overwrite an uncommitted suffix
				if lastIndex > commit && lastIndex > snapIndex+1 && r.chance(1, 2) {
					back := 1 + uint64(r.intn(int(lastIndex-commit)))
					if lastIndex-back > snapIndex {
						lastIndex -= back
					}
				}
			}
			n := 1 + r.intn(4)
			for i := 0; i < n; i++ {
				lastIndex++
				e := raftpb.Entry{Term: term, Index: lastIndex, Data: payload(r, segsize)}
				if r.chance(1, 15) {
					e.Type = raftpb.EntryConfChange
				}
				termOf[lastIndex] = term
				op.ents = append(op.ents, e)
			}
			if r.chance(1, 3) && lastIndex > commit {
				commit += uint64(r.intn(int(lastIndex-commit) + 1))
			}
			op.kind = "save"
			if r.chance(5, 6) {
				op.st = raftpb.HardState{Term: term, Vote: vote, Commit: commit}
			}
		}
		synced := false
		switch op.kind {
		case "snap":
			if err := w.SaveSnapshot(op.snap); err != nil {
				return nil, fmt.Errorf("SaveSnapshot: %v", err)
			}
			sc.snaps = append(sc.snaps, walpb.Snapshot{Index: op.snap.Index, Term: op.snap.Term})
			if op.snap.Index > snapIndex && r.chance(1, 2) {
				snapIndex = op.snap.Index // later overwrites stay above it
			}
			synced = true
			written += 40
		case "save":
			if err := w.Save(op.st, op.ents); err != nil {
				return nil, fmt.Errorf("Save: %v", err)
			}
			synced = raft.MustSync(op.st, prev, len(op.ents))
			if !raft.IsEmptyHardState(op.st) {
				prev = op.st
			}
			for _, e := range op.ents {
				written += 32 + len(e.Data)
			}
			written += 24
		}
		sc.ops = append(sc.ops, op)
		fs, err := readWalDir(dir)
		if err != nil {
			return nil, err
		}
		if len(fs) > nfiles {
			nfiles = len(fs)
			sc.ops = append(sc.ops, genOp{kind: "cut"})
			synced = true
		}
		if synced {
			if err := takeDir(true); err != nil {
				return nil, err
			}
		}
	}
	if err := w.Close(); err != nil {
		return nil, err
	}
	if err := takeDir(true); err != nil {
		return nil, err
	}
	os.RemoveAll(dir)
	return sc, nil
}

func emitScenario(w *bufio.Writer, sc *scenario) {
	fmt.Fprintf(w, "WAL %s %d %s\n", sc.wid, sc.segsize, optTok(sc.meta))
	for _, op := range sc.ops {
		switch op.kind {
		case "save":
			fmt.Fprintf(w, "OPSAVE %s %s %s %s %d", sc.wid, hx(op.st.Term), hx(op.st.Vote), hx(op.st.Commit), len(op.ents))
			for _, e := range op.ents {
				fmt.Fprintf(w, " %s %s %s %s", hx(uint64(uint32(e.Type))), hx(e.Term), hx(e.Index), optTok(e.Data))
			}
			fmt.Fprintln(w)
		case "snap":
			var conf []byte
			if op.snap.ConfState != nil {
				conf, _ = op.snap.ConfState.Marshal()
				if conf == nil {
					conf = []byte{}
				}
			}
			fmt.Fprintf(w, "OPSNAP %s %s %s %s\n", sc.wid, hx(op.snap.Index), hx(op.snap.Term), optTok(conf))
		case "reopen":
			fmt.Fprintf(w, "OPREOPEN %s %s %s\n", sc.wid, hx(op.snap.Index), hx(op.snap.Term))
		case "cut":
			fmt.Fprintf(w, "OPCUT %s\n", sc.wid)
		}
	}
}

func emitDir(w *bufio.Writer, wid string, d dirSnap) {
	fmt.Fprintf(w, "DIR %s %s %d %d\n", d.id, wid, d.nops, len(d.files))
	for _, f := range d.files {
		fmt.Fprintf(w, "F %s %s %s %s\n", d.id, hx(f.seq), hx(f.index), hex.EncodeToString(f.data))
	}
	fmt.Fprintf(w, "ENDDIR %s\n", d.id)
}

// genwal <cases-out> <seed> <tier> [big|small]
func genWalCmd(args []string) error {
	if len(args) != 3 && len(args) != 4 {
		return fmt.Errorf("genwal <cases> <seed> <quick|thorough> [big|small]")
	}
	seed, _ := strconv.ParseUint(args[1], 10, 64)
	thorough := args[2] == "thorough"
	if len(args) == 4 && args[3] == "small" {
		return genSmallCmd(args[0], seed, thorough)
	}
	r := newRng(seed ^ 0x16a1)
	f, err := os.Create(args[0])
	if err != nil {
		return err
	}
	defer f.Close()
	w := bufio.NewWriterSize(f, 1<<20)
	defer w.Flush()
	root, err := os.MkdirTemp(os.Getenv("VERIF_SCRATCH_ROOT"), "c16-gen-")
	if err != nil {
		return err
	}
	defer os.RemoveAll(root)

	nscen := 1
	if thorough {
		nscen = 5
	}
	cid, didc := 0, 0
	next := func() string { cid++; return fmt.Sprintf("c%d", cid) }
	stats := map[string]int{}
	for s := 0; s < nscen; s++ {
		segsize := []int64{4096, 4096, 8192, 16384}[r.intn(4)]
		if s == 0 {
			segsize = 4096
		}
		target := int(segsize) * (2 + r.intn(2))
		if s%3 == 2 {
			target = int(segsize) / 2 // a log that never cuts
		}
		sc, err := genScenario(r, root, fmt.Sprintf("w%d", s), segsize, target, &didc)
		if err != nil {
			return err
		}
		emitScenario(w, sc)
		final := sc.dirs[len(sc.dirs)-1]
		// every directory state is tied to the writer model; a sample gets a pristine read
		for i, d := range sc.dirs {
			emitDir(w, sc.wid, d)
			stats["dirs"]++
			if i == len(sc.dirs)-1 || i%4 == 0 || thorough {
				fmt.Fprintf(w, "READ %s %s 0 0\n", next(), d.id)
				stats["read"]++
			}
		}
		// reads that start from a saved snapshot, from a wrong term, from an unknown index
		for i, sn := range sc.snaps {
			if i < 3 || thorough {
				fmt.Fprintf(w, "READ %s %s %s %s\n", next(), final.id, hx(sn.Index), hx(sn.Term))
				fmt.Fprintf(w, "READ %s %s %s %s\n", next(), final.id, hx(sn.Index), hx(sn.Term+1))
				stats["read"] += 2
			}
		}
		fmt.Fprintf(w, "READ %s %s %s 1\n", next(), final.id, hx(1<<40))
		fmt.Fprintf(w, "READ %s %s 1 1\n", next(), final.id)
		stats["read"] += 2

		// ---- crash images: consecutive synced states within the same tail segment
		ncrash := 0
		maxCrash := 6
		if thorough {
			maxCrash = 40
		}
		order := r.perm(len(sc.dirs) - 1)
		for _, i := range order {
			if ncrash >= maxCrash {
				break
			}
			a, b := sc.dirs[i], sc.dirs[i+1]
			if len(a.files) != len(b.files) {
				continue // a cut in between: the new segment is synced before it is renamed
			}
			_, endA := frameOffsets(a.files[len(a.files)-1].data)
			_, endB := frameOffsets(b.files[len(b.files)-1].data)
			if endB <= endA {
				continue
			}
			first, last := endA/512, (endB-1)/512
			nsec := last - first + 1
			var subsets [][]int
			if nsec <= 6 {
				for m := 0; m < 1<<uint(nsec); m++ {
					var ss []int
					for j := 0; j < nsec; j++ {
						if m>>uint(j)&1 == 1 {
							ss = append(ss, first+j)
						}
					}
					subsets = append(subsets, ss)
				}
			} else {
				// every single sector, every "all but one", all, none, and random subsets
				var all []int
				for j := first; j <= last; j++ {
					all = append(all, j)
					subsets = append(subsets, []int{j})
				}
				subsets = append(subsets, all, nil)
				for j := first; j <= last; j++ {
					var ss []int
					for _, x := range all {
						if x != j {
							ss = append(ss, x)
						}
					}
					subsets = append(subsets, ss)
				}
				nr := 40
				if thorough {
					nr = 300
				}
				for t := 0; t < nr; t++ {
					var ss []int
					for _, x := range all {
						if r.chance(1, 2) {
							ss = append(ss, x)
						}
					}
					subsets = append(subsets, ss)
				}
			}
			if !thorough && len(subsets) > 70 {
				subsets = subsets[:70]
			}
			for _, ss := range subsets {
				strs := make([]string, len(ss))
				for j, x := range ss {
					strs[j] = strconv.Itoa(x)
				}
				sl := "-"
				if len(ss) > 0 {
					sl = strings.Join(strs, ",")
				}
				fmt.Fprintf(w, "Z %s %s 0 0 %d %s\n", next(), b.id, endA, sl)
				stats["crash"]++
			}
			stats["crashpoints"]++
			if nsec > 6 {
				stats["crashpoints_gt6"]++
			}
			ncrash++
		}

		// ---- single-byte corruption of the final directory
		li := len(final.files) - 1
		emitM := func(fi, off int, val byte, si, st uint64) {
			if off < 0 || off >= len(final.files[fi].data) || final.files[fi].data[off] == val {
				return
			}
			fmt.Fprintf(w, "M %s %s %s %s %d %d %d\n", next(), final.id, hx(si), hx(st), fi, off, val)
			stats["corrupt"]++
		}
		valuesFor := func(b byte) []byte {
			vs := []byte{b ^ 0x01, b ^ 0x80, byte(r.next())}
			if thorough {
				vs = append(vs, 0, b+1, b^0x10, 0xff)
			}
			return vs
		}
		// (a) structured: the header bytes (frame length, tags, type, crc) of records
		for fi := range final.files {
			offs, _ := frameOffsets(final.files[fi].data)
			pick := map[int]bool{}
			if thorough || len(offs) <= 12 {
				for i := range offs {
					pick[i] = true
				}
			} else {
				for i := 0; i < 3; i++ {
					pick[i] = true
					pick[len(offs)-1-i] = true
				}
				for i := 0; i < 6; i++ {
					pick[r.intn(len(offs))] = true
				}
			}
			for i, o := range offs {
				if !pick[i] {
					continue
				}
				for d := 0; d < 20; d++ {
					b := final.files[fi].data[o+d]
					vals := []byte{b ^ 0x01, b ^ 0x80}
					if d == 9 || thorough {
						// the type byte: every record type and its neighbours
						vals = append(vals, 0, 1, 2, 3, 4, 5, 6)
					}
					if d < 8 {
						vals = append(vals, 0, b^0x08, b^0x10, b^0x40)
					}
					seen := map[byte]bool{}
					for _, v := range vals {
						if !seen[v] {
							seen[v] = true
							emitM(fi, o+d, v, 0, 0)
						}
					}
				}
			}
		}
		// (b) every offset (thorough) or sampled offsets (quick) of the last segment's data,
		//     plus a few in the zero tail and in earlier segments
		_, endL := frameOffsets(final.files[li].data)
		if thorough && s < 1 {
			for off := 0; off < endL+16; off++ {
				for _, v := range valuesFor(final.files[li].data[off%len(final.files[li].data)]) {
					emitM(li, off, v, 0, 0)
				}
			}
		} else {
			n := 60
			if thorough {
				n = 500
			}
			for t := 0; t < n; t++ {
				off := r.intn(endL + 16)
				for _, v := range valuesFor(final.files[li].data[off%len(final.files[li].data)]) {
					emitM(li, off, v, 0, 0)
				}
			}
		}
		for t := 0; t < 10; t++ {
			off := endL + r.intn(len(final.files[li].data)-endL+1)
			emitM(li, off, byte(1+r.intn(255)), 0, 0)
		}
		for fi := 0; fi < li; fi++ {
			n := 40
			if thorough {
				n = 400
			}
			for t := 0; t < n; t++ {
				off := r.intn(len(final.files[fi].data))
				emitM(fi, off, final.files[fi].data[off]^byte(1+r.intn(255)), 0, 0)
			}
		}
		// (c) corruption seen through Open(snapshot)
		if len(sc.snaps) > 0 {
			sn := sc.snaps[len(sc.snaps)-1]
			for t := 0; t < 30; t++ {
				off := r.intn(endL + 8)
				emitM(li, off, final.files[li].data[off]^byte(1+r.intn(255)), sn.Index, sn.Term)
			}
		}
	}
	keys := make([]string, 0, len(stats))
	for k := range stats {
		keys = append(keys, k)
	}
	sort.Strings(keys)
	for _, k := range keys {
		fmt.Printf("%s=%d ", k, stats[k])
	}
	fmt.Println()
	return nil
}

func (r *rng) perm(n int) []int {
	p := make([]int, n)
	for i := range p {
		p[i] = i
	}
	for i := n - 1; i > 0; i-- {
		j := r.intn(i + 1)
		p[i], p[j] = p[j], p[i]
	}
	return p
}

// ---------------------------------------------------------------- snapshot directories

// gensnap <cases-out> <seed> <tier>
func genSnapCmd(args []string) error {
	if len(args) != 3 {
		return fmt.Errorf("gensnap <cases> <seed> <quick|thorough>")
	}
	seed, _ := strconv.ParseUint(args[1], 10, 64)
	thorough := args[2] == "thorough"
	r := newRng(seed ^ 0x5a9)
	f, err := os.Create(args[0])
	if err != nil {
		return err
	}
	defer f.Close()
	w := bufio.NewWriterSize(f, 1<<20)
	defer w.Flush()
	root, err := os.MkdirTemp(os.Getenv("VERIF_SCRATCH_ROOT"), "c16-gensnap-")
	if err != nil {
		return err
	}
	defer os.RemoveAll(root)
	cid := 0
	next := func() string { cid++; return fmt.Sprintf("s%d", cid) }
	type sfile struct {
		name string
		data []byte
	}
	emit := func(files []sfile) {
		fmt.Fprintf(w, "SNAP %s %d", next(), len(files))
		for _, f := range files {
			c := "-"
			if len(f.data) > 0 {
				c = hex.EncodeToString(f.data)
			}
			fmt.Fprintf(w, " %s %s", hex.EncodeToString([]byte(f.name)), c)
		}
		fmt.Fprintln(w)
	}
	ndirs := 2
	if thorough {
		ndirs = 6
	}
	for d := 0; d < ndirs; d++ {
		dir := filepath.Join(root, fmt.Sprintf("snapdir%d", d))
		if err := os.MkdirAll(dir, 0700); err != nil {
			return err
		}
		ss := snap.New(lg, dir)
		nsn := 2 + r.intn(3)
		term, index := uint64(1), uint64(0)
		for i := 0; i < nsn; i++ {
			index += 1 + uint64(r.intn(1000))
			if r.chance(1, 2) {
				term += uint64(r.intn(3))
			}
			var data []byte
			if !r.chance(1, 6) {
				data = r.bytes(1 + r.intn(200))
			}
			s := raftpb.Snapshot{Data: data, Metadata: raftpb.SnapshotMetadata{Index: index, Term: term,
				ConfState: raftpb.ConfState{Voters: []uint64{1, 2, 3}, Learners: []uint64{uint64(4 + r.intn(3))}}}}
			if err := ss.SaveSnap(s); err != nil {
				return err
			}
			b, _ := s.Marshal()
			fmt.Fprintf(w, "SNAPENC %s\n", hex.EncodeToString(b))
		}
		ents, _ := os.ReadDir(dir)
		var files []sfile
		for _, e := range ents {
			b, _ := os.ReadFile(filepath.Join(dir, e.Name()))
			files = append(files, sfile{e.Name(), b})
		}
		sort.Slice(files, func(i, j int) bool { return files[i].name < files[j].name })
		// shuffled directory order must not matter
		emit(files)
		rev := append([]sfile(nil), files...)
		for i, j := 0, len(rev)-1; i < j; i, j = i+1, j-1 {
			rev[i], rev[j] = rev[j], rev[i]
		}
		emit(rev)
		// files that are not snapshots
		extra := append([]sfile(nil), files...)
		extra = append(extra, sfile{"db", []byte("x")}, sfile{"db.tmp.1234", []byte("y")}, sfile{"notes.txt", nil},
			sfile{"ffffffffffffffff-ffffffffffffffff.snap.db", []byte("z")})
		emit(extra)
		mut := func(k int, off int, v byte) []sfile {
			out := append([]sfile(nil), files...)
			d := append([]byte(nil), out[k].data...)
			d[off] = v
			out[k] = sfile{out[k].name, d}
			return out
		}
		newest := len(files) - 1
		// every offset of the newest file (small), several values
		for off := 0; off < len(files[newest].data); off++ {
			b := files[newest].data[off]
			vals := []byte{b ^ 1, b ^ 0x80, byte(r.next())}
			if thorough {
				vals = append(vals, 0, b+1, 0xff, b^0x10)
			}
			for _, v := range vals {
				if v != b {
					emit(mut(newest, off, v))
				}
			}
		}
		// older files, sampled; two newest both damaged; all damaged; truncated / empty newest
		for k := 0; k < newest; k++ {
			for t := 0; t < 20; t++ {
				off := r.intn(len(files[k].data))
				emit(mut(k, off, files[k].data[off]^byte(1+r.intn(255))))
			}
		}
		for t := 0; t < 20; t++ {
			out := append([]sfile(nil), files...)
			for k := newest; k >= 0 && k > newest-2; k-- {
				d := append([]byte(nil), out[k].data...)
				off := r.intn(len(d))
				d[off] ^= byte(1 + r.intn(255))
				out[k] = sfile{out[k].name, d}
			}
			emit(out)
		}
		{
			out := append([]sfile(nil), files...)
			for k := range out {
				d := append([]byte(nil), out[k].data...)
				d[len(d)/2] ^= 0x55
				out[k] = sfile{out[k].name, d}
			}
			emit(out)
			out2 := append([]sfile(nil), files...)
			out2[newest] = sfile{out2[newest].name, nil}
			emit(out2)
			for _, cut := range []int{1, 2, 5, len(files[newest].data) - 1} {
				if cut < len(files[newest].data) {
					out3 := append([]sfile(nil), files...)
					out3[newest] = sfile{out3[newest].name, files[newest].data[:cut]}
					emit(out3)
				}
			}
		}
	}
	fmt.Printf("snapcases=%d\n", cid)
	return nil
}
