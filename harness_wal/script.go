package main

// script: performs an explicit operation script on the real WAL code and turns symbolic
// mutation descriptions into concrete cases.  Used for replays, for the shrinker and for the
// fixed witness of the open finding (record type byte).
//
// Input lines:
//   WAL <wid> <segsize> <meta>
//   OPSAVE <wid> <term> <vote> <commit> <n> {<type> <term> <index> <data>}*
//   OPSNAP <wid> <index> <term> <conf>
//   OPCUT <wid>                       (ignored: cuts happen where the real code cuts)
//   MUT READ <si> <st>
//   MUT K <op>                              process-kill image taken when script operation <op>
//                                           returned (files copied while the WAL is still open)
//   MUT M <op> <j> <rel> <val> <si> <st>    byte <rel> of the frame of the j-th record written by
//                                           script operation <op> (-1 = Create; the records of a
//                                           segment cut count as written by the operation that
//                                           triggered it); <val> = new byte value
//   MUT MFREE <rel> <val> <si> <st>         byte <rel> after the last record of the last file
//   MUT L <a> <b> <mask> <si> <st> <nsaves> <psize>   two lives: crash image as for Z, reopened for
//                                           append, <nsaves> saves of <psize> bytes appended, closed, reopened
//   MUT Z <a> <b> <mask> <si> <st>          crash between the synced states after operations a
//                                           and b (-1 = Create): bit k of <mask> loses the k-th
//                                           sector of the unsynced region
// Output: a case file in the grammar of genwal (WAL/OP*/DIR/F/ENDDIR/READ/M/Z); a MUT that does
// not apply to the layout produced by the script yields a line "INVALID <n>" instead.

import (
	"bufio"
	"fmt"
	"os"
	"path/filepath"
	"strconv"

	"go.etcd.io/etcd/raft/v3"
	"go.etcd.io/etcd/raft/v3/raftpb"
	"go.etcd.io/etcd/server/v3/storage/wal"
	"go.etcd.io/etcd/server/v3/storage/wal/walpb"
)

func init() { subcmds["script"] = scriptCmd }

type scriptRun struct {
	ops     []genOp   // as given (no cuts)
	outOps  []genOp   // with cut pseudo-operations inserted where the code cut
	nrec    []int     // records written by ops[i] (including those of a cut it triggered)
	dirAt   []int     // index into dirs of the synced state taken after ops[i], or -1
	kills   []dirSnap // process-kill image after ops[i] (files as another process sees them when the call returned)
	killNops []int    // number of out-ops (cuts included) completed when kills[i] was taken
	dirs    []dirSnap // dirs[0] = after Create
	final   dirSnap
	scratch string
}

func confStateOf(b []byte) *raftpb.ConfState {
	if b == nil {
		return nil
	}
	cs := &raftpb.ConfState{}
	if err := cs.Unmarshal(b); err != nil {
		return &raftpb.ConfState{}
	}
	return cs
}

func countFrames(files []fileEnt) int {
	n := 0
	for _, f := range files {
		offs, _ := frameOffsets(f.data)
		n += len(offs)
	}
	return n
}

// runScript performs ops with the real wal package in a fresh directory under root.
func runScript(root, wid string, segsize int64, meta []byte, ops []genOp, didc *int) (*scriptRun, error) {
	sr := &scriptRun{ops: ops}
	dir := filepath.Join(root, "wal-"+wid)
	os.RemoveAll(dir)
	wal.SegmentSizeBytes = segsize
	w, err := wal.Create(lg, dir, meta)
	if err != nil {
		return nil, err
	}
	defer os.RemoveAll(dir)
	takeDir := func() (int, error) {
		fs, err := readWalDir(dir)
		if err != nil {
			return 0, err
		}
		*didc++
		sr.dirs = append(sr.dirs, dirSnap{id: fmt.Sprintf("d%d", *didc), nops: len(sr.outOps), files: fs, synced: true})
		return len(sr.dirs) - 1, nil
	}
	if _, err := takeDir(); err != nil {
		return nil, err
	}
	var prev raftpb.HardState
	nfiles := 1
	total := 3 // records written so far: Create wrote crc, metadata, snapshot
	for _, op := range ops {
		cnt := 0
		switch op.kind {
		case "reopen":
			// end of a session: Close, then Open at the given snapshot and ReadAll for append
			if err := w.Close(); err != nil {
				return nil, fmt.Errorf("Close: %v", err)
			}
			w2, err := wal.Open(lg, dir, op.snap)
			if err != nil {
				return nil, fmt.Errorf("reopen: %v", err)
			}
			if _, _, _, err := w2.ReadAll(); err != nil {
				w2.Close()
				return nil, fmt.Errorf("reopen ReadAll: %v", err)
			}
			w = w2
			prev = raftpb.HardState{} // ReadAll does not restore w.state
		case "snap":
			if err := w.SaveSnapshot(op.snap); err != nil {
				return nil, fmt.Errorf("SaveSnapshot: %v", err)
			}
			cnt = 1
		case "save":
			if err := w.Save(op.st, op.ents); err != nil {
				return nil, fmt.Errorf("Save: %v", err)
			}
			cnt = len(op.ents)
			if !raft.IsEmptyHardState(op.st) {
				prev = op.st
				cnt++
			}
		default:
			continue
		}
		sr.outOps = append(sr.outOps, op)
		// the process-kill image: the files as they are now, the WAL still open (nothing is
		// closed, flushed or synced by the harness)
		fs, err := readWalDir(dir)
		if err != nil {
			return nil, err
		}
		if len(fs) > nfiles {
			nfiles = len(fs)
			sr.outOps = append(sr.outOps, genOp{kind: "cut"})
			cnt += 2 // crc + metadata records at the head of the new segment
			if !raft.IsEmptyHardState(prev) {
				cnt++
			}
		}
		total += cnt
		sr.nrec = append(sr.nrec, cnt)
		*didc++
		sr.kills = append(sr.kills, dirSnap{id: fmt.Sprintf("d%d", *didc), nops: -1, files: fs})
		sr.killNops = append(sr.killNops, len(sr.outOps))
		// a sync point is where the real code made everything written so far visible in the
		// files (decided by looking at the files, not by re-computing raft.MustSync)
		if countFrames(fs) == total {
			*didc++
			sr.dirs = append(sr.dirs, dirSnap{id: fmt.Sprintf("d%d", *didc), nops: len(sr.outOps), files: fs, synced: true})
			sr.dirAt = append(sr.dirAt, len(sr.dirs)-1)
		} else {
			sr.dirAt = append(sr.dirAt, -1)
		}
	}
	if err := w.Close(); err != nil {
		return nil, err
	}
	fs, err := readWalDir(dir)
	if err != nil {
		return nil, err
	}
	*didc++
	sr.final = dirSnap{id: fmt.Sprintf("d%d", *didc), nops: len(sr.outOps), files: fs, synced: true}
	return sr, nil
}

// locate the frame of global record number g in the final directory
func (sr *scriptRun) frameOf(g int) (fi, off, flen int, ok bool) {
	for i, f := range sr.final.files {
		offs, end := frameOffsets(f.data)
		if g < len(offs) {
			e := end
			if g+1 < len(offs) {
				e = offs[g+1]
			}
			return i, offs[g], e - offs[g], true
		}
		g -= len(offs)
	}
	return 0, 0, 0, false
}

func parseOpLine(fs []string) (genOp, error) {
	switch fs[0] {
	case "OPSAVE":
		if len(fs) < 6 {
			return genOp{}, fmt.Errorf("short OPSAVE")
		}
		op := genOp{kind: "save", st: raftpb.HardState{Term: unhx(fs[2]), Vote: unhx(fs[3]), Commit: unhx(fs[4])}}
		n, _ := strconv.Atoi(fs[5])
		if len(fs) != 6+4*n {
			return genOp{}, fmt.Errorf("OPSAVE: %d entries announced, %d tokens", n, len(fs)-6)
		}
		for i := 0; i < n; i++ {
			d, err := tokOpt(fs[6+4*i+3])
			if err != nil {
				return genOp{}, err
			}
			op.ents = append(op.ents, raftpb.Entry{Type: raftpb.EntryType(int32(uint32(unhx(fs[6+4*i])))),
				Term: unhx(fs[6+4*i+1]), Index: unhx(fs[6+4*i+2]), Data: d})
		}
		return op, nil
	case "OPREOPEN":
		if len(fs) != 4 {
			return genOp{}, fmt.Errorf("bad OPREOPEN")
		}
		return genOp{kind: "reopen", snap: walpb.Snapshot{Index: unhx(fs[2]), Term: unhx(fs[3])}}, nil
	case "OPSNAP":
		if len(fs) != 5 {
			return genOp{}, fmt.Errorf("bad OPSNAP")
		}
		c, err := tokOpt(fs[4])
		if err != nil {
			return genOp{}, err
		}
		return genOp{kind: "snap", snap: walpb.Snapshot{Index: unhx(fs[2]), Term: unhx(fs[3]), ConfState: confStateOf(c)}}, nil
	}
	return genOp{}, fmt.Errorf("not an operation line")
}

// script <script-in> <cases-out>
func scriptCmd(args []string) error {
	if len(args) != 2 {
		return fmt.Errorf("script <script> <cases>")
	}
	var (
		wid     = "w0"
		segsize = int64(4096)
		meta    []byte
		ops     []genOp
		muts    [][]string
	)
	err := scanLines(args[0], func(fs []string) error {
		switch fs[0] {
		case "WAL":
			wid = fs[1]
			segsize, _ = strconv.ParseInt(fs[2], 10, 64)
			m, err := tokOpt(fs[3])
			if err != nil {
				return err
			}
			meta = m
		case "OPSAVE", "OPSNAP", "OPREOPEN":
			op, err := parseOpLine(fs)
			if err != nil {
				return err
			}
			ops = append(ops, op)
		case "MUT":
			muts = append(muts, fs[1:])
		}
		return nil
	})
	if err != nil {
		return err
	}
	root, err := os.MkdirTemp(os.Getenv("VERIF_SCRATCH_ROOT"), "c16-script-")
	if err != nil {
		return err
	}
	defer os.RemoveAll(root)
	didc := 0
	sr, err := runScript(root, wid, segsize, meta, ops, &didc)
	if err != nil {
		return err
	}
	f, err := os.Create(args[1])
	if err != nil {
		return err
	}
	defer f.Close()
	w := bufio.NewWriterSize(f, 1<<20)
	defer w.Flush()
	emitScenario(w, &scenario{wid: wid, segsize: segsize, meta: meta, ops: sr.outOps})
	for _, d := range sr.dirs {
		emitDir(w, wid, d)
	}
	emitDir(w, wid, sr.final)
	cid := 0
	for n, m := range muts {
		cid++
		id := fmt.Sprintf("c%d", cid)
		invalid := func() { fmt.Fprintf(w, "INVALID %d\n", n) }
		atoi := func(s string) int { v, _ := strconv.Atoi(s); return v }
		switch {
		case m[0] == "READ" && len(m) == 3:
			fmt.Fprintf(w, "READ %s %s %s %s\n", id, sr.final.id, m[1], m[2])
		case m[0] == "M" && len(m) == 7:
			op, j, rel, val := atoi(m[1]), atoi(m[2]), atoi(m[3]), atoi(m[4])
			g := j
			if op >= 0 {
				if op >= len(sr.nrec) || j >= sr.nrec[op] {
					invalid()
					continue
				}
				g += 3
				for k := 0; k < op; k++ {
					g += sr.nrec[k]
				}
			} else if j >= 3 {
				invalid()
				continue
			}
			fi, off, flen, ok := sr.frameOf(g)
			if !ok || rel >= flen || sr.final.files[fi].data[off+rel] == byte(val) {
				invalid()
				continue
			}
			fmt.Fprintf(w, "M %s %s %s %s %d %d %d\n", id, sr.final.id, m[5], m[6], fi, off+rel, val)
		case m[0] == "K" && len(m) == 2:
			op := atoi(m[1])
			if op < 0 || op >= len(sr.kills) {
				invalid()
				continue
			}
			emitDir(w, wid, sr.kills[op])
			fmt.Fprintf(w, "K %s %s 0 0 %d\n", id, sr.kills[op].id, sr.killNops[op])
		case m[0] == "MFREE" && len(m) == 5:
			li := len(sr.final.files) - 1
			_, end := frameOffsets(sr.final.files[li].data)
			off := end + atoi(m[1])
			if off >= len(sr.final.files[li].data) || sr.final.files[li].data[off] == byte(atoi(m[2])) {
				invalid()
				continue
			}
			fmt.Fprintf(w, "M %s %s %s %s %d %d %d\n", id, sr.final.id, m[3], m[4], li, off, atoi(m[2]))
		case m[0] == "T" && len(m) == 6:
			// MUT T <a> <b> <delta> <si> <st>: the tail of the state after b ends delta bytes
			// after the end of the state after a
			a, b, delta := atoi(m[1]), atoi(m[2]), atoi(m[3])
			da, db := 0, -1
			if a >= 0 {
				if a >= len(sr.dirAt) || sr.dirAt[a] < 0 {
					invalid()
					continue
				}
				da = sr.dirAt[a]
			}
			if b >= 0 && b < len(sr.dirAt) {
				db = sr.dirAt[b]
			}
			if db < 0 || db <= da {
				invalid()
				continue
			}
			A, B := sr.dirs[da], sr.dirs[db]
			if len(A.files) != len(B.files) {
				invalid()
				continue
			}
			_, endA := frameOffsets(A.files[len(A.files)-1].data)
			_, endB := frameOffsets(B.files[len(B.files)-1].data)
			if endB <= endA || delta < 0 {
				invalid()
				continue
			}
			t := endA + delta
			if t > endB {
				t = endB
			}
			fmt.Fprintf(w, "T %s %s %s %s %d %d %d\n", id, B.id, m[4], m[5], len(B.files)-1, t, endA)
		case (m[0] == "Z" && len(m) == 6) || (m[0] == "L" && len(m) == 8):
			a, b := atoi(m[1]), atoi(m[2])
			mask, _ := strconv.ParseUint(m[3], 10, 64)
			da, db := 0, -1
			if a >= 0 {
				if a >= len(sr.dirAt) || sr.dirAt[a] < 0 {
					invalid()
					continue
				}
				da = sr.dirAt[a]
			}
			if b >= 0 && b < len(sr.dirAt) {
				db = sr.dirAt[b]
			}
			if db < 0 || db <= da {
				invalid()
				continue
			}
			A, B := sr.dirs[da], sr.dirs[db]
			if len(A.files) != len(B.files) {
				invalid()
				continue
			}
			_, endA := frameOffsets(A.files[len(A.files)-1].data)
			_, endB := frameOffsets(B.files[len(B.files)-1].data)
			if endB <= endA {
				invalid()
				continue
			}
			first, last := endA/512, (endB-1)/512
			sl := ""
			for k := 0; first+k <= last && k < 64; k++ {
				if mask>>uint(k)&1 == 1 {
					if sl != "" {
						sl += ","
					}
					sl += strconv.Itoa(first + k)
				}
			}
			if sl == "" {
				sl = "-"
			}
			if m[0] == "L" {
				fmt.Fprintf(w, "L %s %s %s %s %d %s %s %s\n", id, B.id, m[4], m[5], endA, sl, m[6], m[7])
			} else {
				fmt.Fprintf(w, "Z %s %s %s %s %d %s\n", id, B.id, m[4], m[5], endA, sl)
			}
		default:
			invalid()
		}
	}
	return nil
}
