// verifharness_wal: runs etcd's WAL, snapshotter and crc32 code (built from /repo's working
// tree) on generated inputs and writes what it observed, for comparison with the Coq model of
// property C16 (coq/Wal/*.v, extracted to build/walrun).
package main

import (
	"fmt"
	"os"
)

type subcmd func(args []string) error

var subcmds = map[string]subcmd{}

func main() {
	if len(os.Args) < 2 {
		fmt.Fprintln(os.Stderr, "usage: harness_wal <subcommand> args...")
		os.Exit(2)
	}
	f, ok := subcmds[os.Args[1]]
	if !ok {
		fmt.Fprintln(os.Stderr, "unknown subcommand", os.Args[1])
		os.Exit(2)
	}
	if err := f(os.Args[2:]); err != nil {
		fmt.Fprintln(os.Stderr, "harness error:", err)
		os.Exit(3)
	}
}
